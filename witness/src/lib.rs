//! WIT: compile-fail witnesses (each paired with a compiling twin that differs only by the offending
//! construct) for the type-level facts C02 / C06 rest on: a downstream crate cannot construct or open
//! an `Element` except through the decoding API.  Run with `cargo +nightly test --doc --offline`
//! (error codes are only checked on nightly).

/// W1: the representation field is private - no struct literal from raw parts.
/// ```compile_fail,E0451
/// let p = decaf377::Element::default();
/// let _q = decaf377::Element { inner: unsafe { core::mem::zeroed() } };
/// let _ = p;
/// ```
/// Twin (compiles): the decoding API is the way in.
/// ```
/// use core::convert::TryFrom;
/// let p = decaf377::Element::default();
/// let _q = decaf377::Element::try_from([0u8; 32]).unwrap();
/// let _ = p;
/// ```
pub struct W1;

/// W2: the inner curve point cannot be read or replaced from outside.
/// ```compile_fail,E0616
/// let p = decaf377::Element::default();
/// let _inner = p.inner;
/// ```
/// Twin (compiles):
/// ```
/// let p = decaf377::Element::default();
/// let _bytes = p.vartime_compress().0;
/// ```
pub struct W2;

/// W3: there is no infallible conversion from bytes to an `Element` (only `TryFrom`, which decodes).
/// ```compile_fail,E0277
/// let _e: decaf377::Element = [0u8; 32].into();
/// ```
/// Twin (compiles): bytes convert infallibly only to the inert `Encoding`.
/// ```
/// let _e: decaf377::Encoding = [0u8; 32].into();
/// ```
pub struct W3;

/// W4: functional-update syntax cannot smuggle a replaced representation either.
/// ```compile_fail,E0451
/// let p = decaf377::Element::default();
/// let _q = decaf377::Element { inner: unsafe { core::mem::zeroed() }, ..p };
/// ```
/// Twin (compiles):
/// ```
/// let p = decaf377::Element::default();
/// let _q = p;
/// ```
pub struct W4;
