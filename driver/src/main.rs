// decaf-facts: rustc_private driver that dumps, for crate `decaf377`, the
// type-checked HIR of every body (with every call / operator / method resolved
// to its trait method and, where possible, to the concrete impl), the item and
// impl tables, struct definitions, and the compiler's own const-evaluation of
// every constant (as a structured value tree).  It never executes decaf377 code.
//
// Usage: RUSTC_WORKSPACE_WRAPPER=<this> DECAF_FACTS_OUT=<file.json> cargo +nightly check ...
#![feature(rustc_private)]
#![allow(clippy::all)]

extern crate rustc_abi;
extern crate rustc_ast;
extern crate rustc_driver;
extern crate rustc_hir;
extern crate rustc_interface;
extern crate rustc_middle;
extern crate rustc_span;

mod json;
use json::J;

use rustc_hir as hir;
use rustc_hir::def::{DefKind, Res};
use rustc_hir::def_id::{DefId, LocalDefId, LOCAL_CRATE};
use rustc_middle::ty::{self, GenericArgsRef, Instance, Ty, TyCtxt, TypeckResults, TypingEnv};
use rustc_middle::ty::print::with_no_trimmed_paths;
use rustc_span::Span;

struct Cb;

impl rustc_driver::Callbacks for Cb {
    fn after_analysis<'tcx>(
        &mut self,
        _c: &rustc_interface::interface::Compiler,
        tcx: TyCtxt<'tcx>,
    ) -> rustc_driver::Compilation {
        let name = tcx.crate_name(LOCAL_CRATE).to_string();
        let want = std::env::var("DECAF_FACTS_CRATE").unwrap_or_else(|_| "decaf377".to_string());
        if name == want {
            if let Ok(out) = std::env::var("DECAF_FACTS_OUT") {
                let j = dump(tcx);
                let mut s = String::new();
                j.write(&mut s);
                std::fs::write(&out, s).expect("write facts");
            }
        }
        rustc_driver::Compilation::Continue
    }
}

fn main() {
    let mut args: Vec<String> = std::env::args().collect();
    // RUSTC_WORKSPACE_WRAPPER: argv[1] is the real rustc path
    if args.len() > 1 && (args[1].ends_with("rustc") || args[1].contains("/rustc")) {
        args.remove(1);
    }
    rustc_driver::run_compiler(&args, &mut Cb);
}

// ---------------------------------------------------------------------------------------------

fn ps<'tcx>(tcx: TyCtxt<'tcx>, did: DefId) -> String {
    with_no_trimmed_paths!(tcx.def_path_str(did))
}

fn tys<'tcx>(t: Ty<'tcx>) -> String {
    with_no_trimmed_paths!(t.to_string())
}

fn span_str<'tcx>(tcx: TyCtxt<'tcx>, sp: Span) -> String {
    let sp = sp.source_callsite();
    let sm = tcx.sess.source_map();
    let lo = sm.lookup_char_pos(sp.lo());
    let f = match &lo.file.name {
        rustc_span::FileName::Real(r) => {
            if let Some(p) = r.local_path() {
                p.to_string_lossy().to_string()
            } else {
                format!("{:?}", lo.file.name)
            }
        }
        o => format!("{:?}", o),
    };
    format!("{}:{}:{}", f, lo.line, lo.col.0 + 1)
}

fn macro_chain(sp: Span) -> Vec<String> {
    let mut v = vec![];
    for ed in sp.macro_backtrace() {
        match ed.kind {
            rustc_span::ExpnKind::Macro(_, name) => v.push(name.to_string()),
            rustc_span::ExpnKind::Desugaring(k) => v.push(format!("desugar:{:?}", k)),
            _ => {}
        }
    }
    v
}

struct Cx<'tcx> {
    tcx: TyCtxt<'tcx>,
}

struct BodyCx<'a, 'tcx> {
    tcx: TyCtxt<'tcx>,
    tr: &'tcx TypeckResults<'tcx>,
    owner: LocalDefId,
    env: TypingEnv<'tcx>,
    _p: std::marker::PhantomData<&'a ()>,
}

fn args_json<'tcx>(args: GenericArgsRef<'tcx>) -> J {
    J::Arr(
        args.iter()
            .map(|a| J::Str(with_no_trimmed_paths!(format!("{}", a))))
            .collect(),
    )
}

impl<'a, 'tcx> BodyCx<'a, 'tcx> {
    fn callee(&self, did: DefId, args: GenericArgsRef<'tcx>) -> J {
        let tcx = self.tcx;
        let mut o = J::obj();
        o.set("path", J::Str(ps(tcx, did)));
        o.set("args", args_json(args));
        o.set("dk", J::Str(format!("{:?}", tcx.def_kind(did))));
        if let Some(tr) = tcx.trait_of_assoc(did) {
            o.set("trait", J::Str(ps(tcx, tr)));
        }
        if let Some(imp) = tcx.impl_of_assoc(did) {
            o.set("impl_self", J::Str(tys(tcx.type_of(imp).instantiate_identity().skip_norm_wip())));
        }
        o.set("local", J::Bool(did.is_local()));
        let dk = tcx.def_kind(did);
        let arity_ok = args.len() == tcx.generics_of(did).count();
        if !arity_ok {
            o.set("arity_mismatch", J::Bool(true));
        }
        if arity_ok && matches!(dk, DefKind::Fn | DefKind::AssocFn | DefKind::AssocConst { .. } | DefKind::Const { .. }) {
            // may fail when args still mention type parameters of the enclosing item
            let r = std::panic::catch_unwind(std::panic::AssertUnwindSafe(|| {
                Instance::try_resolve(tcx, self.env, did, args)
            }));
            if let Ok(Ok(Some(inst))) = r {
                let idid = inst.def_id();
                let mut io = J::obj();
                io.set("path", J::Str(ps(tcx, idid)));
                io.set("local", J::Bool(idid.is_local()));
                io.set("args", args_json(inst.args));
                io.set("kind", J::Str(format!("{:?}", std::mem::discriminant(&inst.def)).to_string()));
                let kind = match inst.def {
                    ty::InstanceKind::Item(_) => "Item",
                    ty::InstanceKind::Virtual(..) => "Virtual",
                    ty::InstanceKind::Intrinsic(_) => "Intrinsic",
                    ty::InstanceKind::FnPtrShim(..) => "FnPtrShim",
                    ty::InstanceKind::ClosureOnceShim { .. } => "ClosureOnceShim",
                    ty::InstanceKind::CloneShim(..) => "CloneShim",
                    ty::InstanceKind::DropGlue(..) => "DropGlue",
                    _ => "Other",
                };
                io.set("kind", J::Str(kind.to_string()));
                if let Some(imp) = tcx.impl_of_assoc(idid) {
                    io.set(
                        "impl_self",
                        J::Str(tys(tcx.type_of(imp).instantiate_identity().skip_norm_wip())),
                    );
                    if let Some(tref) = tcx.impl_opt_trait_ref(imp) {
                        io.set(
                            "impl_trait",
                            J::Str(with_no_trimmed_paths!(format!(
                                "{}",
                                tref.instantiate_identity().skip_norm_wip()
                            ))),
                        );
                    }
                }
                o.set("inst", io);
            }
        }
        o
    }

    fn base(&self, k: &str, e: &hir::Expr<'tcx>) -> J {
        let mut o = J::obj();
        o.set("k", J::Str(k.to_string()));
        let t = self.tr.expr_ty(e);
        o.set("ty", J::Str(tys(t)));
        let ta = self.tr.expr_ty_adjusted(e);
        if ta != t {
            o.set("tya", J::Str(tys(ta)));
        }
        o.set("sp", J::Str(span_str(self.tcx, e.span)));
        if e.span.from_expansion() {
            o.set(
                "mac",
                J::Arr(macro_chain(e.span).into_iter().map(J::Str).collect()),
            );
        }
        let adj = self.tr.expr_adjustments(e);
        if !adj.is_empty() {
            let mut v = vec![];
            for a in adj {
                use rustc_middle::ty::adjustment::Adjust;
                let mut ao = J::obj();
                match &a.kind {
                    Adjust::NeverToAny => ao.set("k", J::Str("NeverToAny".into())),
                    Adjust::Deref(d) => {
                        ao.set("k", J::Str("Deref".into()));
                        let dbg = format!("{:?}", d);
                        // overloaded derefs carry Some(OverloadedDeref{..})
                        ao.set("overloaded", J::Bool(dbg.contains("Overloaded")));
                    }
                    Adjust::Borrow(_) => ao.set("k", J::Str("Borrow".into())),
                    Adjust::Pointer(p) => {
                        ao.set("k", J::Str("Pointer".into()));
                        ao.set("cast", J::Str(format!("{:?}", p)));
                    }
                    _ => ao.set("k", J::Str("Other".into())),
                }
                ao.set("ty", J::Str(tys(a.target)));
                v.push(ao);
            }
            o.set("adj", J::Arr(v));
        }
        o
    }

    fn res_json(&self, res: Res, hir_id: hir::HirId) -> J {
        let tcx = self.tcx;
        let mut o = J::obj();
        match res {
            Res::Local(hid) => {
                o.set("res", J::Str("Local".into()));
                o.set("id", J::Num(hid.local_id.as_u32() as i128));
                o.set("name", J::Str(tcx.hir_name(hid).to_string()));
            }
            Res::Def(dk, did) => {
                o.set("res", J::Str("Def".into()));
                o.set("dk", J::Str(format!("{:?}", dk)));
                let args = self.tr.node_args(hir_id);
                o.set("callee", self.callee_or_plain(dk, did, args));
            }
            Res::SelfCtor(did) => {
                o.set("res", J::Str("SelfCtor".into()));
                o.set("impl", J::Str(ps(tcx, did)));
            }
            Res::SelfTyAlias { alias_to, .. } => {
                o.set("res", J::Str("SelfTyAlias".into()));
                o.set("impl", J::Str(ps(tcx, alias_to)));
            }
            other => {
                o.set("res", J::Str(format!("{:?}", other)));
            }
        }
        o
    }

    fn callee_or_plain(&self, dk: DefKind, did: DefId, args: GenericArgsRef<'tcx>) -> J {
        match dk {
            DefKind::Ctor(..) => {
                let mut o = J::obj();
                o.set("path", J::Str(ps(self.tcx, did)));
                o.set("dk", J::Str(format!("{:?}", dk)));
                // parent ADT / variant
                let parent = self.tcx.parent(did);
                o.set("parent", J::Str(ps(self.tcx, parent)));
                o.set("local", J::Bool(did.is_local()));
                o
            }
            _ => self.callee(did, args),
        }
    }

    fn qpath(&self, qp: &hir::QPath<'tcx>, hir_id: hir::HirId) -> J {
        let res = self.tr.qpath_res(qp, hir_id);
        self.res_json(res, hir_id)
    }

    fn lit(&self, l: &hir::Lit) -> J {
        use rustc_ast::LitKind;
        let mut o = J::obj();
        match l.node {
            LitKind::Int(v, _) => {
                o.set("lk", J::Str("Int".into()));
                o.set("v", J::Str(v.get().to_string()));
            }
            LitKind::Bool(b) => {
                o.set("lk", J::Str("Bool".into()));
                o.set("v", J::Bool(b));
            }
            LitKind::Str(s, _) => {
                o.set("lk", J::Str("Str".into()));
                o.set("v", J::Str(s.to_string()));
            }
            LitKind::Byte(b) => {
                o.set("lk", J::Str("Int".into()));
                o.set("v", J::Str(b.to_string()));
            }
            LitKind::Char(c) => {
                o.set("lk", J::Str("Char".into()));
                o.set("v", J::Str(c.to_string()));
            }
            LitKind::ByteStr(ref bs, _) => {
                o.set("lk", J::Str("ByteStr".into()));
                o.set("v", J::Str(format!("{:?}", bs)));
            }
            _ => {
                o.set("lk", J::Str("Other".into()));
            }
        }
        o
    }

    fn expr(&self, e: &hir::Expr<'tcx>) -> J {
        use hir::ExprKind as K;
        let tcx = self.tcx;
        match &e.kind {
            K::Lit(l) => {
                let mut o = self.base("Lit", e);
                o.set("lit", self.lit(l));
                o
            }
            K::Path(qp) => {
                let mut o = self.base("Path", e);
                o.set("r", self.qpath(qp, e.hir_id));
                o
            }
            K::Call(f, args) => {
                let mut o = self.base("Call", e);
                o.set("f", self.expr(f));
                o.set("args", J::Arr(args.iter().map(|a| self.expr(a)).collect()));
                // overloaded call (closure call through Fn traits)
                if let Some(did) = self.tr.type_dependent_def_id(e.hir_id) {
                    o.set("callee", self.callee(did, self.tr.node_args(e.hir_id)));
                }
                o
            }
            K::MethodCall(seg, recv, args, _) => {
                let mut o = self.base("MethodCall", e);
                o.set("name", J::Str(seg.ident.to_string()));
                if let Some(did) = self.tr.type_dependent_def_id(e.hir_id) {
                    o.set("callee", self.callee(did, self.tr.node_args(e.hir_id)));
                }
                o.set("recv", self.expr(recv));
                o.set("args", J::Arr(args.iter().map(|a| self.expr(a)).collect()));
                o
            }
            K::Binary(op, l, r) => {
                let mut o = self.base("Binary", e);
                o.set("op", J::Str(format!("{:?}", op.node)));
                if let Some(did) = self.tr.type_dependent_def_id(e.hir_id) {
                    o.set("callee", self.callee(did, self.tr.node_args(e.hir_id)));
                }
                o.set("l", self.expr(l));
                o.set("r", self.expr(r));
                o
            }
            K::Unary(op, x) => {
                let mut o = self.base("Unary", e);
                o.set("op", J::Str(format!("{:?}", op)));
                if let Some(did) = self.tr.type_dependent_def_id(e.hir_id) {
                    o.set("callee", self.callee(did, self.tr.node_args(e.hir_id)));
                }
                o.set("x", self.expr(x));
                o
            }
            K::Assign(l, r, _) => {
                let mut o = self.base("Assign", e);
                o.set("l", self.expr(l));
                o.set("r", self.expr(r));
                o
            }
            K::AssignOp(op, l, r) => {
                let mut o = self.base("AssignOp", e);
                o.set("op", J::Str(format!("{:?}", op.node)));
                if let Some(did) = self.tr.type_dependent_def_id(e.hir_id) {
                    o.set("callee", self.callee(did, self.tr.node_args(e.hir_id)));
                }
                o.set("l", self.expr(l));
                o.set("r", self.expr(r));
                o
            }
            K::Field(b, id) => {
                let mut o = self.base("Field", e);
                o.set("name", J::Str(id.to_string()));
                o.set("base", self.expr(b));
                o
            }
            K::Index(b, i, _) => {
                let mut o = self.base("Index", e);
                if let Some(did) = self.tr.type_dependent_def_id(e.hir_id) {
                    o.set("callee", self.callee(did, self.tr.node_args(e.hir_id)));
                }
                o.set("base", self.expr(b));
                o.set("idx", self.expr(i));
                o
            }
            K::Tup(xs) => {
                let mut o = self.base("Tup", e);
                o.set("xs", J::Arr(xs.iter().map(|a| self.expr(a)).collect()));
                o
            }
            K::Array(xs) => {
                let mut o = self.base("Array", e);
                o.set("xs", J::Arr(xs.iter().map(|a| self.expr(a)).collect()));
                o
            }
            K::Repeat(x, _len) => {
                let mut o = self.base("Repeat", e);
                o.set("x", self.expr(x));
                // the length is in the type string `[T; N]`
                o
            }
            K::Struct(qp, fields, tail) => {
                let mut o = self.base("Struct", e);
                let res = self.tr.qpath_res(qp, e.hir_id);
                o.set("r", self.res_json_noargs(res));
                if let ty::Adt(adt, _) = self.tr.expr_ty(e).kind() {
                    o.set("adt", J::Str(ps(tcx, adt.did())));
                }
                let mut fv = vec![];
                for f in fields.iter() {
                    let mut fo = J::obj();
                    fo.set("name", J::Str(f.ident.to_string()));
                    fo.set("e", self.expr(f.expr));
                    fv.push(fo);
                }
                o.set("fields", J::Arr(fv));
                if let hir::StructTailExpr::Base(b) = tail {
                    o.set("base", self.expr(b));
                }
                o
            }
            K::If(c, t, el) => {
                let mut o = self.base("If", e);
                o.set("c", self.expr(c));
                o.set("t", self.expr(t));
                if let Some(el) = el {
                    o.set("e", self.expr(el));
                }
                o
            }
            K::Match(s, arms, src) => {
                let mut o = self.base("Match", e);
                o.set("src", J::Str(format!("{:?}", src)));
                o.set("s", self.expr(s));
                let mut av = vec![];
                for a in arms.iter() {
                    let mut ao = J::obj();
                    ao.set("pat", self.pat(a.pat));
                    if let Some(g) = a.guard {
                        ao.set("guard", self.expr(g));
                    }
                    ao.set("body", self.expr(a.body));
                    av.push(ao);
                }
                o.set("arms", J::Arr(av));
                o
            }
            K::Loop(b, _l, src, _) => {
                let mut o = self.base("Loop", e);
                o.set("src", J::Str(format!("{:?}", src)));
                o.set("body", self.block(b));
                o
            }
            K::Block(b, _) => {
                let mut o = self.base("Block", e);
                o.set("body", self.block(b));
                o
            }
            K::Let(le) => {
                let mut o = self.base("Let", e);
                o.set("pat", self.pat(le.pat));
                o.set("init", self.expr(le.init));
                o
            }
            K::Ret(x) => {
                let mut o = self.base("Ret", e);
                if let Some(x) = x {
                    o.set("x", self.expr(x));
                }
                o
            }
            K::Break(_d, x) => {
                let mut o = self.base("Break", e);
                if let Some(x) = x {
                    o.set("x", self.expr(x));
                }
                o
            }
            K::Continue(_) => self.base("Continue", e),
            K::Closure(c) => {
                let mut o = self.base("Closure", e);
                let body = tcx.hir_body(c.body);
                o.set(
                    "params",
                    J::Arr(body.params.iter().map(|p| self.pat(p.pat)).collect()),
                );
                o.set("body", self.expr(body.value));
                o
            }
            K::AddrOf(_, m, x) => {
                let mut o = self.base("AddrOf", e);
                o.set("mut", J::Bool(m.is_mut()));
                o.set("x", self.expr(x));
                o
            }
            K::Cast(x, _) => {
                let mut o = self.base("Cast", e);
                o.set("x", self.expr(x));
                o
            }
            K::Type(x, _) | K::DropTemps(x) | K::Use(x, _) | K::Become(x) => {
                let mut o = self.base("Paren", e);
                o.set("x", self.expr(x));
                o
            }
            K::ConstBlock(_) => self.base("ConstBlock", e),
            K::InlineAsm(_) => self.base("InlineAsm", e),
            K::OffsetOf(..) => self.base("OffsetOf", e),
            K::Yield(..) => self.base("Yield", e),
            K::UnsafeBinderCast(..) => self.base("UnsafeBinderCast", e),
            K::Err(_) => self.base("Err", e),
        }
    }

    fn res_json_noargs(&self, res: Res) -> J {
        let mut o = J::obj();
        match res {
            Res::Def(dk, did) => {
                o.set("res", J::Str("Def".into()));
                o.set("dk", J::Str(format!("{:?}", dk)));
                o.set("path", J::Str(ps(self.tcx, did)));
            }
            Res::SelfTyAlias { alias_to, .. } => {
                o.set("res", J::Str("SelfTyAlias".into()));
                o.set("impl", J::Str(ps(self.tcx, alias_to)));
            }
            other => o.set("res", J::Str(format!("{:?}", other))),
        }
        o
    }

    fn block(&self, b: &hir::Block<'tcx>) -> J {
        let mut o = J::obj();
        let mut sv = vec![];
        for s in b.stmts.iter() {
            let mut so = J::obj();
            match &s.kind {
                hir::StmtKind::Let(l) => {
                    so.set("k", J::Str("Let".into()));
                    so.set("pat", self.pat(l.pat));
                    if let Some(i) = l.init {
                        so.set("init", self.expr(i));
                    }
                    if let Some(els) = l.els {
                        so.set("els", self.block(els));
                    }
                    so.set("sp", J::Str(span_str(self.tcx, l.span)));
                }
                hir::StmtKind::Item(_) => {
                    so.set("k", J::Str("Item".into()));
                }
                hir::StmtKind::Expr(x) => {
                    so.set("k", J::Str("Expr".into()));
                    so.set("e", self.expr(x));
                }
                hir::StmtKind::Semi(x) => {
                    so.set("k", J::Str("Semi".into()));
                    so.set("e", self.expr(x));
                }
            }
            sv.push(so);
        }
        o.set("stmts", J::Arr(sv));
        if let Some(x) = b.expr {
            o.set("expr", self.expr(x));
        }
        if !matches!(b.rules, hir::BlockCheckMode::DefaultBlock) {
            o.set("unsafe", J::Bool(true));
        }
        o
    }

    fn pat(&self, p: &hir::Pat<'tcx>) -> J {
        use hir::PatKind as P;
        let mut o = J::obj();
        o.set("ty", J::Str(tys(self.tr.pat_ty(p))));
        match &p.kind {
            P::Wild | P::Missing | P::Never => o.set("k", J::Str("Wild".into())),
            P::Binding(mode, hid, ident, sub) => {
                o.set("k", J::Str("Bind".into()));
                o.set("id", J::Num(hid.local_id.as_u32() as i128));
                o.set("name", J::Str(ident.to_string()));
                o.set("mode", J::Str(format!("{:?}", mode)));
                if let Some(s) = sub {
                    o.set("sub", self.pat(s));
                }
            }
            P::Struct(qp, fields, _) => {
                o.set("k", J::Str("Struct".into()));
                let res = self.tr.qpath_res(qp, p.hir_id);
                o.set("r", self.res_json_noargs(res));
                let mut fv = vec![];
                for f in fields.iter() {
                    let mut fo = J::obj();
                    fo.set("name", J::Str(f.ident.to_string()));
                    fo.set("pat", self.pat(f.pat));
                    fv.push(fo);
                }
                o.set("fields", J::Arr(fv));
            }
            P::TupleStruct(qp, ps_, ddp) => {
                o.set("k", J::Str("TupleStruct".into()));
                let res = self.tr.qpath_res(qp, p.hir_id);
                o.set("r", self.res_json_noargs(res));
                o.set("ps", J::Arr(ps_.iter().map(|x| self.pat(x)).collect()));
                if let Some(i) = ddp.as_opt_usize() {
                    o.set("ddpos", J::Num(i as i128));
                }
            }
            P::Tuple(ps_, ddp) => {
                o.set("k", J::Str("Tuple".into()));
                o.set("ps", J::Arr(ps_.iter().map(|x| self.pat(x)).collect()));
                if let Some(i) = ddp.as_opt_usize() {
                    o.set("ddpos", J::Num(i as i128));
                }
            }
            P::Or(ps_) => {
                o.set("k", J::Str("Or".into()));
                o.set("ps", J::Arr(ps_.iter().map(|x| self.pat(x)).collect()));
            }
            P::Box(x) | P::Deref(x) => {
                o.set("k", J::Str("Deref".into()));
                o.set("p", self.pat(x));
            }
            P::Ref(x, _, _) => {
                o.set("k", J::Str("Ref".into()));
                o.set("p", self.pat(x));
            }
            P::Expr(pe) => match &pe.kind {
                hir::PatExprKind::Lit { lit, negated } => {
                    o.set("k", J::Str("Lit".into()));
                    o.set("lit", self.lit(lit));
                    o.set("neg", J::Bool(*negated));
                }
                hir::PatExprKind::Path(qp) => {
                    o.set("k", J::Str("Path".into()));
                    let res = self.tr.qpath_res(qp, pe.hir_id);
                    o.set("r", self.res_json_noargs(res));
                }
            },
            P::Guard(x, g) => {
                o.set("k", J::Str("Guard".into()));
                o.set("p", self.pat(x));
                o.set("g", self.expr(g));
            }
            P::Range(..) => o.set("k", J::Str("Range".into())),
            P::Slice(a, m, b) => {
                o.set("k", J::Str("Slice".into()));
                o.set("pre", J::Arr(a.iter().map(|x| self.pat(x)).collect()));
                if let Some(m) = m {
                    o.set("mid", self.pat(m));
                }
                o.set("post", J::Arr(b.iter().map(|x| self.pat(x)).collect()));
            }
            P::Err(_) => o.set("k", J::Str("Err".into())),
        }
        o
    }
}

// ---------------------------------------------------------------------------------------------
// constants -> structured values through valtrees

fn val_json<'tcx>(tcx: TyCtxt<'tcx>, env: TypingEnv<'tcx>, vt: ty::ValTree<'tcx>, t: Ty<'tcx>, depth: usize) -> J {
    if depth > 40 {
        return J::Str("<deep>".into());
    }
    let t = tcx.try_normalize_erasing_regions(env, ty::Unnormalized::new_wip(t)).unwrap_or(t);
    match t.kind() {
        ty::Bool | ty::Char | ty::Int(_) | ty::Uint(_) => {
            if let Some(s) = vt.try_to_leaf() {
                let mut o = J::obj();
                let size = s.size();
                let bits = s.to_bits(size);
                let v: String = match t.kind() {
                    ty::Int(_) => size.sign_extend(bits).to_string(),
                    _ => bits.to_string(),
                };
                o.set("int", J::Str(v));
                o.set("ty", J::Str(tys(t)));
                o
            } else {
                J::Str("<nonleaf>".into())
            }
        }
        ty::Ref(_, inner, _) => val_json(tcx, env, vt, *inner, depth + 1),
        ty::Array(elem, _) | ty::Slice(elem) => {
            let Some(br) = vt.try_to_branch() else { return J::Str("<nonbranch>".into()) };
            let mut o = J::obj();
            o.set("ty", J::Str(tys(t)));
            o.set(
                "arr",
                J::Arr(br.iter().map(|c| val_json(tcx, env, c.to_value().valtree, *elem, depth + 1)).collect()),
            );
            o
        }
        ty::Str => {
            let Some(br) = vt.try_to_branch() else { return J::Str("<nonbranch>".into()) };
            let bytes: Vec<u8> = br
                .iter()
                .filter_map(|c| c.to_value().valtree.try_to_leaf().map(|s| s.to_u8()))
                .collect();
            let mut o = J::obj();
            o.set("str", J::Str(String::from_utf8_lossy(&bytes).to_string()));
            o
        }
        ty::Tuple(ts) => {
            let Some(br) = vt.try_to_branch() else { return J::Str("<nonbranch>".into()) };
            let mut o = J::obj();
            o.set("ty", J::Str(tys(t)));
            o.set(
                "tup",
                J::Arr(
                    br.iter()
                        .zip(ts.iter())
                        .map(|(c, et)| val_json(tcx, env, c.to_value().valtree, et, depth + 1))
                        .collect(),
                ),
            );
            o
        }
        ty::Adt(def, args) => {
            let Some(br) = vt.try_to_branch() else { return J::Str("<nonbranch>".into()) };
            let mut o = J::obj();
            o.set("ty", J::Str(tys(t)));
            o.set("adt", J::Str(ps(tcx, def.did())));
            let mut children: Vec<ty::ValTree<'tcx>> = br.iter().map(|c| c.to_value().valtree).collect();
            let variant = if def.is_enum() {
                let vi = children.remove(0).try_to_leaf().map(|s| s.to_u32()).unwrap_or(0);
                let v = def.variant(rustc_abi::VariantIdx::from_u32(vi));
                o.set("variant", J::Str(v.name.to_string()));
                v
            } else {
                def.non_enum_variant()
            };
            let mut fo = J::obj();
            for (f, c) in variant.fields.iter().zip(children.into_iter()) {
                let ft = f.ty(tcx, args);
                fo.set(&f.name.to_string(), val_json(tcx, env, c, ft, depth + 1));
            }
            o.set("fields", fo);
            o
        }
        _ => J::Str(format!("<unsupported {}>", tys(t))),
    }
}

fn raw_alloc_json<'tcx>(tcx: TyCtxt<'tcx>, alloc: rustc_middle::mir::interpret::ConstAllocation<'tcx>, depth: usize) -> J {
    let a = alloc.inner();
    let len = a.len();
    let bytes = a.inspect_with_uninit_and_ptr_outside_interpreter(0..len);
    let mut o = J::obj();
    let hex: String = bytes.iter().map(|b| format!("{:02x}", b)).collect();
    o.set("hex", J::Str(hex));
    let mut pv = vec![];
    if depth < 6 {
        for (off, prov) in a.provenance().ptrs().iter() {
            let mut po = J::obj();
            po.set("off", J::Num(off.bytes() as i128));
            let id = prov.alloc_id();
            match tcx.global_alloc(id) {
                rustc_middle::mir::interpret::GlobalAlloc::Memory(m) => {
                    po.set("alloc", raw_alloc_json(tcx, m, depth + 1));
                }
                other => po.set("other", J::Str(format!("{:?}", other))),
            }
            pv.push(po);
        }
    }
    o.set("ptrs", J::Arr(pv));
    o
}

fn const_value_json<'tcx>(tcx: TyCtxt<'tcx>, env: TypingEnv<'tcx>, inst: Instance<'tcx>, t: Ty<'tcx>) -> J {
    let gid = rustc_middle::mir::interpret::GlobalId { instance: inst, promoted: None };
    let mut o = J::obj();
    o.set("ty", J::Str(tys(t)));
    let r = std::panic::catch_unwind(std::panic::AssertUnwindSafe(|| {
        tcx.eval_to_valtree(env.as_query_input(gid))
    }));
    match r {
        Ok(Ok(vt)) => {
            o.set("val", val_json(tcx, env, vt, t, 0));
            return o;
        }
        Ok(Err(e)) => {
            o.set("valtree_err", J::Str(format!("{:?}", e)));
        }
        Err(_) => {
            o.set("valtree_err", J::Str("panic".into()));
        }
    }
    // fall back to raw bytes
    let r = std::panic::catch_unwind(std::panic::AssertUnwindSafe(|| tcx.const_eval_global_id(env, gid, rustc_span::DUMMY_SP)));
    if let Ok(Ok(cv)) = r {
        use rustc_middle::mir::ConstValue;
        match cv {
            ConstValue::Scalar(s) => o.set("scalar", J::Str(format!("{:?}", s))),
            ConstValue::ZeroSized => o.set("zst", J::Bool(true)),
            ConstValue::Indirect { alloc_id, offset } => {
                if let rustc_middle::mir::interpret::GlobalAlloc::Memory(m) = tcx.global_alloc(alloc_id) {
                    o.set("offset", J::Num(offset.bytes() as i128));
                    o.set("raw", raw_alloc_json(tcx, m, 0));
                }
            }
            ConstValue::Slice { alloc_id, meta } => {
                if let rustc_middle::mir::interpret::GlobalAlloc::Memory(m) = tcx.global_alloc(alloc_id) {
                    o.set("slice_len", J::Num(meta as i128));
                    o.set("raw", raw_alloc_json(tcx, m, 0));
                }
            }
        }
    } else {
        o.set("eval_err", J::Bool(true));
    }
    o
}

// ---------------------------------------------------------------------------------------------

fn dump<'tcx>(tcx: TyCtxt<'tcx>) -> J {
    let _cx = Cx { tcx };
    let mut root = J::obj();
    root.set("crate", J::Str(tcx.crate_name(LOCAL_CRATE).to_string()));
    let skip_fiat = std::env::var("DECAF_FACTS_FIAT").is_err();

    // cfg surface
    let mut cfgs: Vec<String> = tcx
        .sess
        .config
        .iter()
        .map(|(k, v)| match v {
            Some(v) => format!("{}={}", k, v),
            None => k.to_string(),
        })
        .filter(|s| s.starts_with("feature") || s.starts_with("decaf") || s == "test" || s == "debug_assertions")
        .collect();
    cfgs.sort();
    root.set("cfg", J::Arr(cfgs.into_iter().map(J::Str).collect()));

    // ---- bodies
    let mut bodies = vec![];
    let mut skipped = 0i128;
    for ldid in tcx.hir_body_owners() {
        let did = ldid.to_def_id();
        let dk = tcx.def_kind(did);
        if !matches!(
            dk,
            DefKind::Fn | DefKind::AssocFn | DefKind::Const { .. } | DefKind::AssocConst { .. } | DefKind::Static { .. }
        ) {
            continue;
        }
        let path = ps(tcx, did);
        let mut o = J::obj();
        o.set("path", J::Str(path.clone()));
        o.set("dk", J::Str(format!("{:?}", dk)));
        o.set("sp", J::Str(span_str(tcx, tcx.def_span(did))));
        o.set("vis", J::Str(format!("{:?}", tcx.visibility(did))));
        if let Some(imp) = tcx.impl_of_assoc(did) {
            o.set("impl_self", J::Str(tys(tcx.type_of(imp).instantiate_identity().skip_norm_wip())));
            if let Some(tref) = tcx.impl_opt_trait_ref(imp) {
                let tref = tref.instantiate_identity().skip_norm_wip();
                o.set("impl_trait", J::Str(with_no_trimmed_paths!(format!("{}", tref))));
                o.set("impl_trait_def", J::Str(ps(tcx, tref.def_id)));
            }
            o.set("impl_sp", J::Str(span_str(tcx, tcx.def_span(imp))));
        }
        if let Some(tr) = tcx.trait_of_assoc(did) {
            o.set("in_trait", J::Str(ps(tcx, tr)));
        }
        if matches!(dk, DefKind::Fn | DefKind::AssocFn) {
            let sig = tcx.fn_sig(did).instantiate_identity().skip_norm_wip().skip_binder();
            o.set("inputs", J::Arr(sig.inputs().iter().map(|t| J::Str(tys(*t))).collect()));
            o.set("output", J::Str(tys(sig.output())));
            let g = tcx.generics_of(did);
            let mut gv = vec![];
            for p in g.own_params.iter() {
                gv.push(J::Str(format!("{}:{:?}", p.name, std::mem::discriminant(&p.kind))));
            }
            o.set("generics", J::Arr(gv));
            // all generic parameter names in argument order (parents first)
            let mut names: Vec<String> = vec![];
            let mut chain = vec![];
            let mut cur = Some(did);
            while let Some(d) = cur {
                let gg = tcx.generics_of(d);
                chain.push(gg);
                cur = gg.parent;
            }
            for gg in chain.iter().rev() {
                for p in gg.own_params.iter() {
                    names.push(p.name.to_string());
                }
            }
            o.set("all_generics", J::Arr(names.into_iter().map(J::Str).collect()));
            o.set("n_parent_generics", J::Num(g.parent_count as i128));
        } else {
            o.set("ty", J::Str(tys(tcx.type_of(did).instantiate_identity().skip_norm_wip())));
        }
        let is_fiat = path.contains("::fiat::");
        if is_fiat && skip_fiat {
            o.set("skipped", J::Str("fiat".into()));
            skipped += 1;
        } else {
            let tr = tcx.typeck(ldid);
            let env = TypingEnv::post_analysis(tcx, did);
            let bcx = BodyCx { tcx, tr, owner: ldid, env, _p: std::marker::PhantomData };
            let _ = bcx.owner;
            let body = tcx.hir_body_owned_by(ldid);
            o.set("params", J::Arr(body.params.iter().map(|p| bcx.pat(p.pat)).collect()));
            o.set("body", bcx.expr(body.value));
        }
        bodies.push(o);
    }
    root.set("bodies", J::Arr(bodies));
    root.set("skipped_fiat_bodies", J::Num(skipped));

    // ---- impls, structs
    let mut impls = vec![];
    let mut structs = vec![];
    let mut traits_local = vec![];
    for ldid in tcx.hir_crate_items(()).definitions() {
        let did = ldid.to_def_id();
        match tcx.def_kind(did) {
            DefKind::Impl { .. } => {
                let mut o = J::obj();
                o.set("sp", J::Str(span_str(tcx, tcx.def_span(did))));
                o.set("self", J::Str(tys(tcx.type_of(did).instantiate_identity().skip_norm_wip())));
                if let Some(tref) = tcx.impl_opt_trait_ref(did) {
                    let tref = tref.instantiate_identity().skip_norm_wip();
                    o.set("trait", J::Str(with_no_trimmed_paths!(format!("{}", tref))));
                    o.set("trait_def", J::Str(ps(tcx, tref.def_id)));
                }
                let mut iv = vec![];
                for it in tcx.associated_items(did).in_definition_order() {
                    let mut io = J::obj();
                    io.set("name", J::Str(it.name().to_string()));
                    io.set("kind", J::Str(format!("{:?}", it.kind).split(|c| c == ' ' || c == '{' || c == '(').next().unwrap_or("").to_string()));
                    io.set("path", J::Str(ps(tcx, it.def_id)));
                    iv.push(io);
                }
                o.set("items", J::Arr(iv));
                // provided (default) methods of the trait that this impl does NOT override: their behaviour on this type is
                // the external default body applied to the impl's required methods
                if let Some(tref) = tcx.impl_opt_trait_ref(did) {
                    let tdid = tref.instantiate_identity().skip_norm_wip().def_id;
                    let mut overridden: Vec<rustc_span::def_id::DefId> = vec![];
                    for it in tcx.associated_items(did).in_definition_order() {
                        if let Some(t) = it.trait_item_def_id() {
                            overridden.push(t);
                        }
                    }
                    let mut inh = vec![];
                    let mut ovr = vec![];
                    for it in tcx.associated_items(tdid).in_definition_order() {
                        if matches!(it.kind, ty::AssocKind::Fn { .. }) && it.defaultness(tcx).has_value() {
                            if overridden.contains(&it.def_id) {
                                ovr.push(J::Str(it.name().to_string()));
                            } else {
                                inh.push(J::Str(it.name().to_string()));
                            }
                        }
                    }
                    o.set("inherited", J::Arr(inh));
                    // provided methods this impl DOES override: the trait's documented default semantics is their specification
                    o.set("overridden", J::Arr(ovr));
                }
                impls.push(o);
            }
            DefKind::Struct | DefKind::Enum | DefKind::Union => {
                let adt = tcx.adt_def(did);
                let mut o = J::obj();
                o.set("path", J::Str(ps(tcx, did)));
                o.set("dk", J::Str(format!("{:?}", tcx.def_kind(did))));
                o.set("vis", J::Str(format!("{:?}", tcx.visibility(did))));
                o.set("sp", J::Str(span_str(tcx, tcx.def_span(did))));
                let mut vv = vec![];
                for v in adt.variants().iter() {
                    let mut vo = J::obj();
                    vo.set("name", J::Str(v.name.to_string()));
                    let mut fv = vec![];
                    for f in v.fields.iter() {
                        let mut fo = J::obj();
                        fo.set("name", J::Str(f.name.to_string()));
                        fo.set("vis", J::Str(format!("{:?}", f.vis)));
                        fo.set("ty", J::Str(tys(tcx.type_of(f.did).instantiate_identity().skip_norm_wip())));
                        fv.push(fo);
                    }
                    vo.set("fields", J::Arr(fv));
                    vv.push(vo);
                }
                o.set("variants", J::Arr(vv));
                structs.push(o);
            }
            DefKind::Trait => {
                traits_local.push(J::Str(ps(tcx, did)));
            }
            _ => {}
        }
    }
    root.set("impls", J::Arr(impls));
    root.set("adts", J::Arr(structs));
    root.set("traits", J::Arr(traits_local));

    // ---- effective visibility (reachable from the public API)
    let ev = tcx.effective_visibilities(());
    let mut pubs = vec![];
    for ldid in tcx.hir_crate_items(()).definitions() {
        if ev.is_reachable(ldid) {
            let dk = tcx.def_kind(ldid.to_def_id());
            if matches!(
                dk,
                DefKind::Fn | DefKind::AssocFn | DefKind::Const { .. } | DefKind::AssocConst { .. } | DefKind::Static { .. } | DefKind::Struct
            ) {
                pubs.push(J::Str(ps(tcx, ldid.to_def_id())));
            }
        }
    }
    root.set("reachable", J::Arr(pubs));

    // ---- constants of the local crate
    let mut consts = vec![];
    for ldid in tcx.hir_crate_items(()).definitions() {
        let did = ldid.to_def_id();
        let dk = tcx.def_kind(did);
        if !matches!(dk, DefKind::Const { .. } | DefKind::AssocConst { .. }) {
            continue;
        }
        // skip generic-dependent constants
        let g = tcx.generics_of(did);
        if g.count() != 0 {
            let requires = g.own_params.iter().any(|p| !matches!(p.kind, ty::GenericParamDefKind::Lifetime))
                || g.parent.map(|p| tcx.generics_of(p).own_params.iter().any(|p| !matches!(p.kind, ty::GenericParamDefKind::Lifetime))).unwrap_or(false);
            if requires {
                continue;
            }
        }
        // trait-level consts without a value
        if tcx.trait_of_assoc(did).is_some() && !tcx.defaultness(did).has_value() {
            continue;
        }
        if tcx.trait_of_assoc(did).is_some() {
            continue;
        }
        let path = ps(tcx, did);
        let mut o = J::obj();
        o.set("path", J::Str(path));
        o.set("sp", J::Str(span_str(tcx, tcx.def_span(did))));
        o.set("vis", J::Str(format!("{:?}", tcx.visibility(did))));
        o.set("reachable", J::Bool(ev.is_reachable(ldid)));
        if let Some(imp) = tcx.impl_of_assoc(did) {
            o.set("impl_self", J::Str(tys(tcx.type_of(imp).instantiate_identity().skip_norm_wip())));
            if let Some(tref) = tcx.impl_opt_trait_ref(imp) {
                o.set(
                    "impl_trait",
                    J::Str(with_no_trimmed_paths!(format!("{}", tref.instantiate_identity().skip_norm_wip()))),
                );
            }
        }
        let env = TypingEnv::post_analysis(tcx, did);
        let t = tcx.type_of(did).instantiate_identity().skip_norm_wip();
        let r = std::panic::catch_unwind(std::panic::AssertUnwindSafe(|| {
            let args = ty::GenericArgs::identity_for_item(tcx, did);
            Instance::new_raw(did, args)
        }));
        if let Ok(inst) = r {
            o.set("value", const_value_json(tcx, env, inst, t));
        }
        consts.push(o);
    }
    root.set("consts", J::Arr(consts));

    // ---- associated constants of *every* impl (local and extern) of the config traits
    let wanted: Vec<String> = std::env::var("DECAF_FACTS_TRAITS")
        .unwrap_or_else(|_| {
            "Fp2Config,Fp6Config,Fp12Config,SWCurveConfig,TECurveConfig,MontCurveConfig,CurveConfig,Bls12Config,MontConfig,PrimeField,FftField,Field"
                .to_string()
        })
        .split(',')
        .map(|s| s.to_string())
        .collect();
    let mut tconsts = vec![];
    for trait_did in tcx.all_traits_including_private() {
        let tname = tcx.item_name(trait_did).to_string();
        if !wanted.contains(&tname) {
            continue;
        }
        let tpath = ps(tcx, trait_did);
        if !(tpath.starts_with("ark_") || trait_did.is_local()) {
            continue;
        }
        for imp in tcx.all_impls(trait_did) {
            let g = tcx.generics_of(imp);
            let generic = g.own_params.iter().any(|p| !matches!(p.kind, ty::GenericParamDefKind::Lifetime));
            let self_ty = tcx.type_of(imp).instantiate_identity().skip_norm_wip();
            let selfs = tys(self_ty);
            if generic {
                // generic impl (e.g. `impl<P: MontConfig<N>, const N> PrimeField for Fp<MontBackend<P,N>,N>`):
                // instantiated below for the concrete field types found in the local crate
                continue;
            }
            let env = TypingEnv::post_analysis(tcx, imp);
            for it in tcx.associated_items(trait_did).in_definition_order() {
                if !matches!(it.kind, ty::AssocKind::Const { .. }) {
                    continue;
                }
                let tref = tcx.impl_opt_trait_ref(imp).unwrap().instantiate_identity().skip_norm_wip();
                let r = std::panic::catch_unwind(std::panic::AssertUnwindSafe(|| {
                    Instance::try_resolve(tcx, env, it.def_id, tref.args)
                }));
                let mut o = J::obj();
                o.set("trait", J::Str(tpath.clone()));
                o.set("self", J::Str(selfs.clone()));
                o.set("name", J::Str(it.name().to_string()));
                o.set("impl_local", J::Bool(imp.is_local()));
                if let Ok(Ok(Some(inst))) = r {
                    o.set("provided_by", J::Str(ps(tcx, inst.def_id())));
                    o.set("overridden", J::Bool(tcx.impl_of_assoc(inst.def_id()).is_some()));
                    let t = tcx.type_of(inst.def_id()).instantiate(tcx, inst.args).skip_norm_wip();
                    o.set("value", const_value_json(tcx, env, inst, t));
                } else {
                    o.set("unresolved", J::Bool(true));
                }
                tconsts.push(o);
            }
            // which methods the impl overrides (for the default-method table)
            let mut ov = vec![];
            for it in tcx.associated_items(imp).in_definition_order() {
                if matches!(it.kind, ty::AssocKind::Fn { .. }) {
                    ov.push(J::Str(it.name().to_string()));
                }
            }
            let mut o = J::obj();
            o.set("trait", J::Str(tpath.clone()));
            o.set("self", J::Str(selfs.clone()));
            o.set("name", J::Str("<fn-overrides>".into()));
            o.set("impl_local", J::Bool(imp.is_local()));
            o.set("fns", J::Arr(ov));
            tconsts.push(o);
        }
    }
    root.set("trait_consts", J::Arr(tconsts));

    root
}
