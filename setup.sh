#!/bin/sh
# Build the fact-extraction driver and warm the dependency caches (offline).
set -e
cd "$(dirname "$0")"
export CARGO_NET_OFFLINE=true
(cd driver && cargo +nightly build --release --offline)
python3 rules/facts.py A M R
