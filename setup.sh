#!/bin/sh
# Build the fact-extraction driver and warm the dependency caches (offline).
set -e
cd "$(dirname "$0")"
export CARGO_NET_OFFLINE=true
(cd driver && cargo +nightly build --release --offline)
python3 rules/facts.py A M R
# warm the compile-fail witness crate's dependencies (thorough tier of C02 / C06)
(cd witness && CARGO_TARGET_DIR=../.cache/witness-target cargo +nightly test --doc --offline >/dev/null 2>&1 || true)
