"""C12 — the arkworks and the minimal backend are observationally identical (sibling agreement).

The two builds are two implementations of one interface; they are compared as programs:
SIB/TERM  decode (value + guard set), encode, Elligator: canonical forms equal *to each other* under one normaliser;
SIB/FWD   every shared operator form has the same abstract denotation (each side's FWD normal form; minimal formulas by C04's ideal rule);
SIB/GLUE  the shared field glue (literally one source compiled against two wrappers) yields the same glue-level terms;
CONST     every constant that exists in both builds has the same canonical value;
API       shared public names have the same signatures modulo the backend types.
"""
import re
from . import terms as Tm, consts as K, poly as P
from .terms import mk, lit, field, TRUE, FALSE
from . import curve as C
from .curve import Cfg
from .common import norm_path
from . import c01, c02, c04, c05, c07, c09, c17
from . import groupops as G
from spec import decaf_spec as SP


def unify_point_params(t, cfgname):
    """rename the element parameter's coordinate accessors to a build-independent form"""
    S_ = mk("param", "self")
    Pn = mk("param", "P")
    if cfgname in ("A", "R"):
        return Tm.subst(t, {field(S_, "inner"): Pn})
    return Tm.subst(t, {S_: Pn})


def sib_terms(rep, A, M):
    N = P.Norm(K.Q)
    # decode
    pa, pm = A.p_decode(rep), M.p_decode(rep)
    if pa and pm:
        oa, om = A.run(pa), M.run(pm)
        ea, ka, _ = C.split_result(rep, A, oa)
        em, km, _ = C.split_result(rep, M, om)
        if len(ka) == 1 and len(km) == 1:
            ca, cm = C.coords(ka[0][1]), C.coords(km[0][1])
            for nm, x, y in zip("XYZT", ca or (), cm or ()):
                rep.ob("SIB/decode:%s" % nm, N.pkey(N.poly(x)) == N.pkey(N.poly(y)),
                       "decoded coordinate %s must be the same function of the input bytes in both builds\n%s" % (nm, "" if N.pkey(N.poly(x)) == N.pkey(N.poly(y)) else C.explain_poly_mismatch(N, x, y)),
                       where=A.where(pa), sample={"obligation": "SIB/decode:%s" % nm, "arkworks": N.show(N.poly(x), 3), "minimal": N.show(N.poly(y), 3)})
        same, wit = C.same_boolean_function(N, [pc for pc, _ in ka], [pc for pc, _ in km])
        rep.ob("SIB/decode:guards", same, "both builds must accept under the same condition, as a boolean function of the same atoms (order and grouping of the checks free): %s" % (wit,), where=A.where(pa))
        eva = {Tm.show(v, maxdepth=3) for _, v in ea}
        evm = {Tm.show(v, maxdepth=3) for _, v in em}
        rep.ob("SIB/decode:errors", eva == evm, "same error values: %s vs %s" % (sorted(eva), sorted(evm)), nontrivial=False)
    # encode
    pa, pm = A.p_encode(rep), M.p_encode(rep)
    if pa and pm:
        ta, tm = unify_point_params(A.run(pa).value, "A"), unify_point_params(M.run(pm).value, "M")
        same = N.pkey(N.poly(ta)) == N.pkey(N.poly(tm))
        rep.ob("SIB/encode", same, "vartime_compress_to_field must be the same function of (X:Y:Z:T) in both builds\n%s" % ("" if same else C.explain_poly_mismatch(N, ta, tm)), where=A.where(pa),
               sample={"obligation": "SIB/encode", "equal": same})
    # elligator (projectively)
    pa, pm = A.p_elligator(rep), M.p_elligator(rep)
    if pa and pm:
        ca, cm = C.coords(A.run(pa).value), C.coords(M.run(pm).value)
        if ca and cm:
            mul, sub = (lambda u, v: mk("mul", u, v)), (lambda u, v: mk("sub", u, v))
            for nm, i in (("X:Z", 0), ("Y:Z", 1)):
                ob = sub(mul(ca[i], cm[2]), mul(cm[i], ca[2]))
                r = N.poly(ob)
                rep.ob("SIB/elligator:%s" % nm, not r, "the two builds' Elligator maps must be the same projective point for every r0 (%s); remainder %s" % (nm, N.show(r, 3)), where=A.where(pa))


def sib_constants(rep, fa, fm):
    def canon_const(c):
        v = c["value"].get("val")
        if v is None:
            return None
        return canon(v)

    def canon(v):
        if isinstance(v, dict):
            if "int" in v:
                return int(v["int"])
            ty = v.get("ty", "")
            if K.field_of_type(ty) and (v.get("adt", "").startswith("fields::") or v.get("adt") == "ark_ff::Fp"):
                return ("F", K.felt(v)[0], K.felt(v)[1])
            if "arr" in v:
                return [canon(x) for x in v["arr"]]
            if "fields" in v:
                fs = v["fields"]
                if "inner" in fs and set(fs) == {"inner"}:
                    return canon(fs["inner"])
                return {k: canon(x) for k, x in fs.items() if x.get("fields") != {} or "int" in x}
        return v

    def keyname(path):
        p = re.sub(r"u(64|32)::wrapper", "uXX::wrapper", path)
        p = p.replace("ark_curve::constants::", "CURVE::").replace("min_curve::constants::", "CURVE::")
        p = p.replace("ark_curve::element::projective::Element::", "ELEMENT::").replace("min_curve::element::Element::", "ELEMENT::")
        p = re.sub(r"<ark_curve::edwards::Decaf377EdwardsConfig as ark_ec::twisted_edwards::TECurveConfig>::", "CURVE::", p)
        return p
    ca = {keyname(c["path"]): c for c in fa["consts"]}
    cm = {keyname(c["path"]): c for c in fm["consts"]}
    # within cfg A both wrappers are compiled: compare them too
    ca32 = {keyname(c["path"]): c for c in fa["consts"] if "u32::wrapper" in c["path"] or "::u32::" in c["path"]}
    ca64 = {keyname(c["path"]): c for c in fa["consts"] if "u64::wrapper" in c["path"]}
    n = 0
    for k in sorted(set(ca) & set(cm)):
        va, vm = canon_const(ca[k]), canon_const(cm[k])
        if va is None or vm is None:
            continue
        if "::N" == k[-3:] or k.endswith("::inverse::I") or re.search(r"::wrapper::N$", k):
            continue    # limb counts differ by design (u64 vs u32 limbs)
        n += 1
        if isinstance(va, dict) and isinstance(vm, dict) and set(va) != set(vm):
            # element constants: (x,y,t,z) arkworks order vs (x,y,z,t): compare as affine points
            try:
                q = K.Q
                pa = (va["x"][2] * pow(va.get("z", ("F", "fq", 1))[2], -1, q) % q, va["y"][2] * pow(va.get("z", ("F", "fq", 1))[2], -1, q) % q)
                pm = (vm["x"][2] * pow(vm.get("z", ("F", "fq", 1))[2], -1, q) % q, vm["y"][2] * pow(vm.get("z", ("F", "fq", 1))[2], -1, q) % q)
                same = pa == pm
            except Exception:
                same = False
        else:
            same = va == vm
        rep.ob("CONST/A=M/%s" % k, same, "constant %s must have the same canonical value in both builds: arkworks %s vs minimal %s" % (k, str(va)[:160], str(vm)[:160]),
               where=ca[k]["sp"], nontrivial=True)
    for k in sorted(set(ca32) & set(ca64)):
        va, vb = canon_const(ca32[k]), canon_const(ca64[k])
        if va is None or vb is None or re.search(r"::wrapper::N$|inverse::I$", k):
            continue
        n += 1
        rep.ob("CONST/u32=u64/%s" % k, va == vb, "the 32-bit and 64-bit wrapper constants %s must agree: %s vs %s" % (k, str(va)[:120], str(vb)[:120]), where=ca32[k]["sp"])
    rep.analysed["constants_compared"] = n
    rep.floor("constants_compared", n, 40)


def sib_glue(rep, A, M):
    """the shared source fields/f?.rs + ops.rs compiled against both wrappers: same glue-level terms"""
    n = 0
    for pa, ba in sorted(A.prog.bodies.items()):
        if not re.match(r"^fields::f[qrp]::(<impl|ops::)", pa) or "u64::wrapper" not in pa or "body" not in ba:
            continue
        if "::test" in pa:
            continue
        pm = pa.replace("u64::wrapper", "u32::wrapper")
        if pm not in M.prog.bodies or "body" not in M.prog.bodies[pm]:
            continue
        if ba["dk"] not in ("Fn", "AssocFn"):
            continue
        name = pa.split("::")[-1]
        try:
            oa, om = A.run(pa, mode="glue"), M.run(pm, mode="glue")
        except Exception as ex:
            rep.info("SIB/GLUE: could not interpret %s: %r" % (pa, ex))
            continue
        sa = re.sub(r"u64::wrapper", "uXX::wrapper", Tm.show(mk("tuple", oa.value, *[t for _, t in sorted(oa.outs.items())]), maxdepth=40))
        sm = re.sub(r"u32::wrapper", "uXX::wrapper", Tm.show(mk("tuple", om.value, *[t for _, t in sorted(om.outs.items())]), maxdepth=40))
        sa, sm = re.sub(r"#\d+", "#", sa), re.sub(r"#\d+", "#", sm)
        n += 1
        rep.ob("SIB/GLUE/%s" % norm_path(pa).replace("u64::wrapper", "uXX::wrapper"), sa == sm,
               "shared field-layer routine must denote the same glue-level term against both wrappers; arkworks: %s | minimal: %s" % (sa[:300], sm[:300]), where=A.where(pa),
               nontrivial=(oa.value.op not in ("param", "unit")))
    rep.analysed["shared_field_routines"] = n
    rep.floor("shared_field_routines", n, 100)


def api_parity(rep, fa, fm):
    def sig(b):
        def norm(t):
            t = re.sub(r"'[a-z_]+ ", "", t)
            t = t.replace("u64::wrapper", "uXX::wrapper").replace("u32::wrapper", "uXX::wrapper")
            t = t.replace("ark_curve::element::projective::Element", "ELEMENT").replace("min_curve::element::Element", "ELEMENT")
            t = t.replace("ark_curve::encoding::Encoding", "ENCODING").replace("min_curve::encoding::Encoding", "ENCODING")
            t = re.sub(r";\s*[A-Za-z_][A-Za-z0-9_:]*\]", "; _]", t)      # unevaluated const names in array lengths (N vs N_64)
            return t
        return ([norm(x) for x in b.get("inputs", [])], norm(b.get("output", "")))

    def keyname(p):
        p = re.sub(r"'[a-z_]+ ", "", p)
        p = p.replace("u64::wrapper", "uXX::wrapper").replace("u32::wrapper", "uXX::wrapper")
        p = p.replace("ark_curve::element::projective::Element", "ELEMENT").replace("min_curve::element::Element", "ELEMENT")
        p = p.replace("ark_curve::encoding::Encoding", "ENCODING").replace("min_curve::encoding::Encoding", "ENCODING")
        p = re.sub(r"^(ark_curve|min_curve)::(encoding|element|elligator|ops::projective|ops)::", "CURVE::", p)
        p = re.sub(r"<impl ", "<impl ", p)
        return p
    ra = set(fa["reachable"])
    rm = set(fm["reachable"])
    a = {keyname(b["path"]): b for b in fa["bodies"] if b["path"] in ra and b["dk"] in ("Fn", "AssocFn")}
    m = {keyname(b["path"]): b for b in fm["bodies"] if b["path"] in rm and b["dk"] in ("Fn", "AssocFn")}
    shared = sorted(set(a) & set(m))
    bad = 0
    for k in shared:
        if " as " in str(sig(a[k])) or " as " in str(sig(m[k])):
            continue      # un-normalised associated-type projection printed by one side only
        same = sig(a[k]) == sig(m[k])
        if not same:
            bad += 1
        rep.ob("API/%s" % norm_path(k), same, "shared public item must have the same signature modulo backend types: %s vs %s" % (sig(a[k]), sig(m[k])), where=a[k]["sp"], nontrivial=False)
    rep.analysed["api"] = {"shared": len(shared), "only_arkworks": len(set(a) - set(m)), "only_minimal": len(set(m) - set(a))}
    rep.floor("shared_public_items", len(shared), 150)


def run(rep, facts, tier):
    rep.explanation = (
        "The two feature configurations are analysed by the same driver and compared as programs, not on samples: canonical forms of decode/encode/"
        "Elligator are compared with each other under one normaliser; every operator form is reduced to the same abstract group/ring operation on both "
        "sides (FWD, with the minimal backend's formulas tied to the group law by polynomial reduction); the shared field glue yields identical terms "
        "against both wrappers; duplicated constants are compared by canonical value; public signatures are compared. Equality of the two primitive "
        "layers (arkworks Fp vs fiat) and of the two square-root routines' choice of root is C10's / C09's undecided part.")
    rep.rules += ["SIB/TERM", "SIB/FWD", "SIB/GLUE", "CONST", "API", "ZERO", "CANON", "LADDER"]
    rep.trusted += ["arkworks Fp arithmetic and fiat-crypto bodies agree on all inputs (trusted primitives)", "summary table"]
    rep.assumptions += ["sqrt_ratio_zeta and non_arkworks_sqrt_ratio_zeta may return different roots; encode/decode normalise the sign afterwards (TERM shows this), the contract itself is C09"]
    if "A" not in facts or "M" not in facts:
        rep.fail_closed("C12 needs both configurations")
        return
    A, M = Cfg(facts["A"]), Cfg(facts["M"])
    sib_terms(rep, A, M)
    sib_constants(rep, facts["A"], facts["M"])
    sib_glue(rep, A, M)
    api_parity(rep, facts["A"], facts["M"])
    # both sides conform to the same references (each rule is applied to both builds)
    for cfg in (A, M):
        c01.check_decode_term(rep, cfg)
        c01.check_encode_term(rep, cfg)
        c01.isqrt_zero_cases(rep, cfg)
        c02.guard_set(rep, cfg)
        c02.canon_parse(rep, cfg)
        pm_ = c07.check_map(rep, cfg)
        loc = G.base_summaries_M(cfg, rep) if cfg.name == "M" else {}
        for path, b, tr, sorts in G.enumerate_ops(cfg, c04.TRAITS + c05.TRAITS):
            if cfg.name == "M" and path in loc:
                continue
            G.check_fwd(rep, cfg, path, b, tr, sorts, loc, "C12")
    c02.from_bigint_rule(rep, A)
    # both wrappers implement the same primitives (limb plumbing, byte primitives) against the same specified shapes
    from . import c11
    for cfg in (A, M):
        c11.limb_glue(rep, cfg)
        c11.wrapper_primitives(rep, cfg)
    c04.ideal_rule(rep, M)
    c05.ladder(rep, M)
    # the two builds' field primitives are different programs (arkworks Fp wrappers vs fiat wrappers): "byte-identical arithmetic" is decided the
    # only way a static argument can - each wrapper layer against the same reference ring operations (C10's instances, both builds) - and the
    # observers (equality, hashing, identity predicates) against the same reference predicates (C08's instances, both builds).
    from . import c10, c08
    from .common import import_rules
    two = {k: v for k, v in facts.items() if k in ("A", "M")}
    nf = import_rules(rep, c10, two, tier, "FIELD")
    no = import_rules(rep, c08, two, tier, "OBSERVE", pred=lambda k: not k.startswith("CONST/"))
    # the decoding entry points (which inputs each conversion accepts, and that all funnel into the one decoder) against the same reference
    # shape in both builds: C02's FUNNEL instances
    from . import c02 as _c02
    nd = import_rules(rep, _c02, two, tier, "DECODE", pred=lambda k: k.startswith("FUNNEL/"))
    rep.floor("decode_entry_instances", nd, 8)
    G.check_select(rep, M)
    rep.floor("field_layer_instances", nf, 400)
    rep.floor("observer_instances", no, 12)
