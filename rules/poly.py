"""Canonical polynomial normal form (mod p) of ring terms.

A polynomial is a dict {monomial: coeff} with monomial = tuple of (atom_id, exponent) sorted by
atom_id and coeff in [1, p).  Atoms are the maximal non-ring sub-terms (parameters, projections,
ISQRT outputs, ITE terms, inverses ...); an atom whose own arguments are ring terms is keyed by
the canonical form of those arguments, so equal functions get the same atom however the source
spelled them.  `Norm` owns the atom table; two terms are equal as functions iff `key()` agrees.
"""
from . import terms as Tm
from .terms import T, mk
from . import consts as K

RING_OPS = {"add", "sub", "mul", "neg", "felem"}


BOOL_OPS = ("eq", "ne", "not", "and", "or", "sign", "isqrt_sq", "bool", "choice_true")


class Norm:
    def __init__(self, p, sign_odd=False):
        self.p = p
        # sign_odd: treat sign(-u) as NOT sign(u).  True for every u != 0 and false at u = 0, so a Norm built with this flag decides
        # equalities only AWAY from the zeros of the sign-tested quantities; used by symmetry rules that state that restriction.
        self.sign_odd = sign_odd
        self.ind_ids = set() # ids of indicator atoms [c] (idempotent: [c]^2 = [c])
        self.atoms = {}      # canonical key -> id
        self.atom_desc = []  # id -> key
        self.memo = {}
        self.cmemo = {}

    # ---- polynomial arithmetic -------------------------------------------------------------------
    def const(self, c):
        c %= self.p
        return {(): c} if c else {}

    def atom_poly(self, key):
        i = self.atoms.get(key)
        if i is None:
            i = len(self.atom_desc)
            self.atoms[key] = i
            self.atom_desc.append(key)
        return {((i, 1),): 1}

    def add(self, a, b, sign=1):
        r = dict(a)
        p = self.p
        for m, c in b.items():
            v = (r.get(m, 0) + sign * c) % p
            if v:
                r[m] = v
            else:
                r.pop(m, None)
        return r

    def mul(self, a, b):
        p = self.p
        r = {}
        if len(a) > len(b):
            a, b = b, a
        for m1, c1 in a.items():
            for m2, c2 in b.items():
                m = self.mono_mul(m1, m2)
                v = (r.get(m, 0) + c1 * c2) % p
                if v:
                    r[m] = v
                else:
                    r.pop(m, None)
        return r

    def mono_mul(self, m1, m2):
        if not m1:
            return m2
        if not m2:
            return m1
        d = dict(m1)
        ind = self.ind_ids
        for a, e in m2:
            if a in ind:
                d[a] = 1                       # [c]^2 = [c]
            else:
                d[a] = d.get(a, 0) + e
        return tuple(sorted(d.items()))

    def indicator(self, ckey):
        """polynomial of the indicator [c] of a canonical condition key; [not c] = 1 - [c]"""
        if ckey == ("true",):
            return self.const(1)
        if ckey == ("false",):
            return {}
        if ckey[0] == "not":
            return self.add(self.const(1), self.indicator(ckey[1]), -1)
        pl = self.atom_poly(("ind", ckey))
        (m, _), = pl.items()
        self.ind_ids.add(m[0][0])
        return pl

    def scale(self, a, c):
        c %= self.p
        if not c:
            return {}
        return {m: v * c % self.p for m, v in a.items()}

    def pkey(self, poly):
        return tuple(sorted(poly.items()))

    def is_const(self, poly):
        return all(m == () for m in poly)

    # ---- terms -> polynomials ----------------------------------------------------------------------
    def poly(self, t):
        r = self.memo.get(t)
        if r is not None:
            return r
        op = t.op
        if op == "felem":
            r = self.const(t.args[1])
        elif op == "add":
            r = self.add(self.poly(t.args[0]), self.poly(t.args[1]))
        elif op == "sub":
            r = self.add(self.poly(t.args[0]), self.poly(t.args[1]), -1)
        elif op == "mul":
            r = self.mul(self.poly(t.args[0]), self.poly(t.args[1]))
        elif op == "neg":
            r = self.scale(self.poly(t.args[0]), -1)
        elif op == "inv":
            inner = self.poly(t.args[0])
            if self.is_const(inner) and inner:
                r = self.const(pow(inner[()], -1, self.p))
            else:
                r = self.inv_poly(inner)
        elif op == "ite":
            c = self.cond(t.args[0])
            a, b = self.poly(t.args[1]), self.poly(t.args[2])
            if c == ("true",):
                r = a
            elif c == ("false",):
                r = b
            elif self.pkey(a) == self.pkey(b):
                r = a
            else:
                # ite(c, a, b) = b + [c] * (a - b) with an idempotent indicator atom [c]: every regrouping of a selection
                # (x * ite(c, 1, r) vs ite(c, x, x*r), ite(c, -x, x) vs x * ite(c, -1, 1), nested selections on one condition)
                # has the same normal form, and (1 - 2[c])^2 = 1 comes out of [c]^2 = [c]
                r = self.add(b, self.mul(self.indicator(c), self.add(a, b, -1)))
        elif op == "isqrt_v":
            r = self.isqrt_v(self.poly(t.args[0]), self.poly(t.args[1]))
        elif op == "of_int" and isinstance(t.args[1], T) and t.args[1].op in BOOL_OPS:
            r = self.indicator(self.cond(t.args[1]))          # Fq::from(b) for a boolean b is the indicator of b
        elif op == "of_int":
            r = self.atom_poly(("of_int", self.opaque(t.args[1])))
        else:
            r = self.atom_poly(self.opaque(t))
        self.memo[t] = r
        return r

    def inv_poly(self, inner):
        # normalise sign/scale: inv(c*P) = c^-1 * inv(P) with P monic in its leading monomial
        if not inner:
            return self.atom_poly(("inv", ()))
        lead = max(inner)
        c = inner[lead]
        mon = self.scale(inner, pow(c, -1, self.p))
        return self.scale(self.atom_poly(("inv", self.pkey(mon))), pow(c, -1, self.p))

    def isqrt_v(self, num, den):
        return self.atom_poly(("isqrt_v", self.pkey(num), self.pkey(den)))

    def opaque(self, t):
        """canonical key of a non-ring term: recursively canonicalise ring-valued arguments"""
        if not isinstance(t, T):
            if isinstance(t, tuple):
                return tuple(self.opaque(x) for x in t)
            return t
        if t.op in RING_OPS or t.op in ("inv", "isqrt_v") or (t.op == "ite" and self.ringish(t.args[1])):
            return ("poly", self.pkey(self.poly(t)))
        if t.op in ("eq", "ne", "not", "and", "or", "sign", "isqrt_sq", "bool"):
            return ("cond", self.cond(t))
        return (t.op,) + tuple(self.opaque(a) for a in t.args)

    def ringish(self, t):
        return isinstance(t, T) and (t.op in RING_OPS or t.op in ("inv", "isqrt_v", "of_int") or
                                     (t.op == "ite" and self.ringish(t.args[1])))

    # ---- conditions ----------------------------------------------------------------------------------
    def cond(self, c):
        r = self.cmemo.get(c)
        if r is not None:
            return r
        op = c.op
        if op == "bool":
            r = ("true",) if c.args[0] else ("false",)
        elif op == "not":
            x = self.cond(c.args[0])
            r = self.cnot(x)
        elif op in ("and", "or"):
            xs = sorted({self.cond(c.args[0]), self.cond(c.args[1])}, key=repr)
            r = (op,) + tuple(xs) if len(xs) > 1 else xs[0]
        elif op in ("eq", "ne"):
            a, b = c.args
            if self.ringish(a) or self.ringish(b) or a.op == "felem" or b.op == "felem":
                d = self.add(self.poly(a), self.poly(b), -1)
                if not d:
                    r = ("true",)
                elif self.is_const(d):
                    r = ("false",)
                else:
                    # canonical sign: P = 0 iff -P = 0
                    lead = max(d)
                    d = self.scale(d, pow(d[lead], -1, self.p))
                    r = ("zero", self.pkey(d))
            elif a.op in BOOL_OPS and b.op in BOOL_OPS:
                # equality of two booleans: an "iff" with negations pulled out (iff(not x, y) = not iff(x, y))
                ca, cb = self.cond(a), self.cond(b)
                flip = False
                if ca[0] == "not":
                    ca, flip = ca[1], not flip
                if cb[0] == "not":
                    cb, flip = cb[1], not flip
                if ca == cb:
                    r = ("true",)
                elif ca in (("true",), ("false",)) or cb in (("true",), ("false",)):
                    konst, other = (ca, cb) if ca in (("true",), ("false",)) else (cb, ca)
                    r = other if konst == ("true",) else self.cnot(other)
                else:
                    ks = sorted([ca, cb], key=repr)
                    r = ("iff", ks[0], ks[1])
                if flip:
                    r = self.cnot(r)
            else:
                ka, kb = self.opaque(a), self.opaque(b)
                if ka == kb:
                    r = ("true",)
                else:
                    ks = sorted([ka, kb], key=repr)
                    r = ("eq", ks[0], ks[1])
            if op == "ne":
                r = self.cnot(r)
        elif op == "sign":
            P_ = self.poly(c.args[0])
            if self.sign_odd and P_:
                Q_ = self.scale(P_, -1)
                if self.pkey(Q_) < self.pkey(P_):
                    r = ("not", ("sign", self.pkey(Q_)))
                else:
                    r = ("sign", self.pkey(P_))
            else:
                r = ("sign", self.pkey(P_))
        elif op == "isqrt_sq":
            r = ("isqrt_sq", self.pkey(self.poly(c.args[0])), self.pkey(self.poly(c.args[1])))
        elif op == "ite":
            x = self.cond(c.args[0])
            a, b = self.cond(c.args[1]), self.cond(c.args[2])
            if x == ("true",):
                r = a
            elif x == ("false",):
                r = b
            elif a == b:
                r = a
            else:
                r = ("ite", x, a, b)
        else:
            r = ("atom", self.opaque(c))
        self.cmemo[c] = r
        return r

    @staticmethod
    def cnot(x):
        if x == ("true",):
            return ("false",)
        if x == ("false",):
            return ("true",)
        if x[0] == "not":
            return x[1]
        return ("not", x)

    # ---- pretty ---------------------------------------------------------------------------------------
    def show(self, poly, limit=12):
        if not poly:
            return "0"
        out = []
        for m, c in sorted(poly.items())[:limit]:
            cs = str(c if c <= self.p // 2 else c - self.p)
            ms = "*".join(("a%d" % a) + ("^%d" % e if e > 1 else "") for a, e in m)
            out.append(cs + ("*" + ms if ms else ""))
        s = " + ".join(out)
        if len(poly) > limit:
            s += " + ...(%d terms)" % len(poly)
        return s

    def describe_atom(self, i, depth=0):
        k = self.atom_desc[i]
        return "a%d=%s" % (i, str(k)[:160])


# ---- substitution and reduction modulo the curve equation (group-law obligations) -------------------

def atom_id(N, term):
    """id of the atom a term normalises to (the term must be a bare atom)"""
    p = N.poly(term)
    if len(p) == 1:
        (m, c), = p.items()
        if c == 1 and len(m) == 1 and m[0][1] == 1:
            return m[0][0]
    raise ValueError("not an atom: %r" % (term,))


def subst_atoms(N, poly, mapping):
    """replace atoms by polynomials: mapping {atom_id: poly}"""
    res = {}
    for m, c in poly.items():
        term = N.const(c)
        for a, e in m:
            base = mapping.get(a)
            if base is None:
                base = {((a, 1),): 1}
            for _ in range(e):
                term = N.mul(term, base)
        res = N.add(res, term)
    return res


def reduce_te_curve(N, poly, xid, yid, a_coeff, d_coeff):
    """normal form modulo  a x^2 + y^2 - 1 - d x^2 y^2  (leading monomial x^2 y^2; a Groebner basis on its own,
    and together with the same relation in disjoint variables by Buchberger's first criterion)"""
    p = N.p
    dinv = pow(d_coeff % p, -1, p)
    changed = True
    while changed:
        changed = False
        out = {}
        for m, c in poly.items():
            d = dict(m)
            if d.get(xid, 0) >= 2 and d.get(yid, 0) >= 2:
                changed = True
                d[xid] -= 2
                d[yid] -= 2
                rest = tuple(sorted((k, v) for k, v in d.items() if v))
                # x^2 y^2 = (a x^2 + y^2 - 1) / d
                repl = {((xid, 2),): a_coeff % p * dinv % p, ((yid, 2),): dinv, (): (-dinv) % p}
                for m2, c2 in repl.items():
                    mm = N.mono_mul(rest, m2)
                    v = (out.get(mm, 0) + c * c2) % p
                    if v:
                        out[mm] = v
                    else:
                        out.pop(mm, None)
            else:
                v = (out.get(m, 0) + c) % p
                if v:
                    out[m] = v
                else:
                    out.pop(m, None)
        poly = out
    return poly


def reduce_modulo_isqrt(N, poly, square_case, zeta):
    """`poly` cleared of the square-root atoms using the CONTRACT of the square-root-of-ratio routine on the flow where it
    reports `square_case`:   v^2 * den = num   (square)   /   v^2 * den = zeta * num   (non-square),  den != 0,
    and of the +-1 selection atoms S = ITE(c, -1, 1) using S^2 = 1.
    Returns (residual polynomial free of even powers of v - multiplied through by a power of den -, list of problems)."""
    p = N.p
    problems = []
    # S^2 = 1
    one, mone = N.pkey(N.const(1)), N.pkey(N.const(-1))
    sgn_ids = {i for i, k in enumerate(N.atom_desc) if isinstance(k, tuple) and k and k[0] == "ite" and {k[2], k[3]} == {one, mone}}
    red = {}
    for m, c in poly.items():
        m2 = tuple(sorted((a, (e % 2 if a in sgn_ids else e)) for a, e in m if not (a in sgn_ids and e % 2 == 0)))
        v = (red.get(m2, 0) + c) % p
        if v:
            red[m2] = v
        else:
            red.pop(m2, None)
    poly = red
    v_ids = [i for i, k in enumerate(N.atom_desc) if isinstance(k, tuple) and k and k[0] == "isqrt_v" and any(a == i for m in poly for a, e in m)]
    for vid in v_ids:
        k = N.atom_desc[vid]
        num, den = dict(k[1]), dict(k[2])
        rhs = N.scale(num, 1 if square_case else zeta)          # v^2 * den = rhs
        byk = {}
        kmax = 0
        for m, c in poly.items():
            d = dict(m)
            e = d.pop(vid, 0)
            rest = tuple(sorted(d.items()))
            if e % 2:
                problems.append("odd power of the square-root output survives")
            kk = e // 2
            kmax = max(kmax, kk)
            byk.setdefault((kk, e % 2), {})
            t = byk[(kk, e % 2)]
            key_rest = rest if e % 2 == 0 else tuple(sorted(list(rest) + [(vid, 1)]))
            t[key_rest] = (t.get(key_rest, 0) + c) % p
        # multiply through by den^kmax:  sum_k A_k v^(2k)  ->  sum_k A_k rhs^k den^(kmax-k)
        total = {}
        for (kk, odd), A in byk.items():
            term = {m_: c_ for m_, c_ in A.items() if c_}
            for _ in range(kk):
                term = N.mul(term, rhs)
            for _ in range(kmax - kk):
                term = N.mul(term, den)
            total = N.add(total, term)
        poly = total
    return poly, problems
