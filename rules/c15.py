"""C15 — circuit shape is input-independent; public input = one Fq = field encoding.  (Pinned Groth16 keys: NOT applicable.)"""
from .curve import Cfg
from . import gadgets as GD


def run(rep, facts, tier):
    rep.explanation = (
        "TAINT: every function of ark_curve::r1cs is interpreted; sources are R1CSVar::value(), the value closures' results and anything computed from them; the only "
        "allowed sinks are allocation value closures. A variable-allocating or constraint-emitting effect that is control-dependent on a tainted condition (other than "
        "mere availability of a value) or that receives a tainted term outside a closure is a violation. INPUT: allocation as public input is exactly one Fq instance "
        "variable = vartime_compress_to_field(value) = ToConstraintField. The third clause of C15 (proofs with the pinned key files verify) is NOT applicable to static analysis.")
    rep.rules += ["TAINT", "INPUT", "SHAPE (the CountConstraints reporter synthesises like the Groth16 generator)"]
    rep.trusted += ["ark-r1cs-std gadgets emit value-independent constraints", "summary table"]
    rep.assumptions += ["NOT APPLICABLE: 'proofs made with tests/test_vectors/*_pk.bin verify under *_vk.param' - binary artefacts and Groth16 arithmetic, no source-level shape to compare",
                        "availability dependence (f()? / value()? aborting synthesis with AssignmentMissing) yields no circuit, hence no different circuit: allowed and listed"]
    if "R" not in facts:
        rep.fail_closed("C15 needs the r1cs configuration")
        return
    cfg = Cfg(facts["R"])
    GD.taint_rule(rep, cfg)
    GD.public_input(rep, cfg)
    GD.shape_reporter(rep, cfg)
    # a proof exists for an input only if the honest witness satisfies the circuit: the prover hint must be the native answer and the hint block
    # must admit it in every row an honest prover can be in (C13's HINT and honest GUARD rows) - the statically visible precondition of clause 3
    from . import c13
    from .common import import_rules
    nh = import_rules(rep, c13, facts, tier, "HONEST", pred=lambda k: k.startswith("HINT/") or k.startswith("HONEST/") or (k.startswith("DEFAULT/") and "AllocVar" in k))
    rep.rules += ["HONEST (C13's HINT and honest guard-row instances; its DEFAULT instances on AllocVar - an overridden new_input / new_witness / "
                  "new_constant is an allocation entry whose variable count the INPUT rule did not see)"]
    rep.floor("honest_witness_instances", nh, 6)
