"""Thorough tier: positive controls.  Every seeded defect under /verif/seeded that this property's check is recorded
to catch is applied to a *scratch copy* of /repo's current working tree and the quick check must report a violation
there - a rule that cannot fire proves nothing.  /repo itself and /verif/evidence are never touched."""
import glob, json, os, sys

VERIF = os.path.dirname(os.path.dirname(os.path.abspath(__file__)))


def positive_controls(rep, pid):
    if os.environ.get("DECAF_REPO"):
        return      # already inside a scratch run
    sys.path.insert(0, os.path.join(VERIF, "tools"))
    import scratch_check
    seeds = []
    for mf in sorted(glob.glob(os.path.join(VERIF, "seeded", "*", "meta.json"))):
        try:
            m = json.load(open(mf))
        except Exception:
            continue
        if pid in (m.get("caught_by") or {}):
            seeds.append((os.path.dirname(mf), m))
    n = 0
    from concurrent.futures import ThreadPoolExecutor
    with ThreadPoolExecutor(max_workers=int(os.environ.get("VERIF_CONTROL_JOBS", "6"))) as ex:
        results = list(ex.map(lambda dm: scratch_check.run(os.path.join(dm[0], "patch.diff"), [pid]), seeds))
    for (d, m), r in zip(seeds, results):
        verdict, info = r.get(pid, ("error", ""))
        name = os.path.basename(d)
        if verdict == "error" and "does not apply" in str(info):
            rep.info("positive control %s skipped: its patch does not apply to the current working tree" % name)
            continue
        n += 1
        rep.ob("CONTROL/%s" % name, verdict == "caught",
               "seeded defect %s (%s) applied to a scratch copy must be reported by this check: %s %s" % (name, (m.get("summary") or "")[:140], verdict, info if verdict != "silent" else ""),
               nontrivial=True, sample={"obligation": "CONTROL/" + name, "verdict": verdict, "rule_instances": info if verdict == "caught" else []})
    rep.analysed["positive_controls_run"] = n
    rep.rules.append("CONTROL(positive controls on scratch copies)")


def negative_controls(rep, pid):
    """behaviour-preserving variants (silent/*) that touch a file among this property's anchors must not raise an alarm"""
    if os.environ.get("DECAF_REPO"):
        return
    sys.path.insert(0, os.path.join(VERIF, "tools"))
    import scratch_check
    anchors = set()
    for ln in open(os.path.join(VERIF, "properties.jsonl")):
        d = json.loads(ln)
        if d["id"] == pid:
            anchors = set(d["anchors"]["files"])
    n = 0
    todo = []
    for mf in sorted(glob.glob(os.path.join(VERIF, "silent", "*", "meta.json"))):
        m = json.load(open(mf))
        f = m.get("file") or ""
        if not any(f == a or (a.endswith("/") and f.startswith(a)) or ("*" in a and f.split("/")[-1] == a.split("/")[-1]) for a in anchors):
            continue
        todo.append((os.path.dirname(mf), m))
    from concurrent.futures import ThreadPoolExecutor
    with ThreadPoolExecutor(max_workers=int(os.environ.get("VERIF_CONTROL_JOBS", "6"))) as ex:
        results = list(ex.map(lambda dm: scratch_check.run(os.path.join(dm[0], "patch.diff"), [pid]), todo))
    for (d, m), r in zip(todo, results):
        verdict, info = r.get(pid, ("error", ""))
        name = os.path.basename(d)
        if verdict == "error" and "does not apply" in str(info):
            rep.info("negative control %s skipped: its patch does not apply to the current working tree" % name)
            continue
        n += 1
        rep.ob("SILENT/%s" % name, verdict == "silent",
               "behaviour-preserving variant %s (%s) must not be reported: %s %s" % (name, (m.get("summary") or "")[:120], verdict, info if verdict != "silent" else ""),
               nontrivial=True)
    rep.analysed["negative_controls_run"] = n
