"""C06 — every public constructor yields a valid group element (provenance typestate).

The representation fields of Element / AffinePoint are not public, so a value of these types can only come
into existence at a construction site inside the crate.  PROV [S]: the compiler-resolved HIR gives every such
site; the wrapped curve point at each site must have provenance in the closed set VALID (decode output, Elligator
output, validated constant, group operations / representation changes / selections over VALID, the inner point of an
existing element).  CONST: the published constants are valid.  WIT: downstream code cannot construct these types.
"""
import re
from . import terms as Tm, consts as K
from .terms import mk, lit, field, TRUE, FALSE
from . import curve as C
from .curve import Cfg
from .common import norm_path
from . import c02, c17

POINTS = ("ark_curve::element::projective::Element", "ark_curve::element::affine::AffinePoint", "min_curve::element::Element")


def bodies_constructing(cfg):
    """bodies whose HIR contains a struct literal / constructor of a point type"""
    res = []

    def has(node):
        if isinstance(node, dict):
            if node.get("k") == "Struct" and node.get("adt") in POINTS:
                return True
            return any(has(v) for v in node.values())
        if isinstance(node, list):
            return any(has(v) for v in node)
        return False
    for path, b in cfg.prog.bodies.items():
        if "body" in b and "r1cs" not in path and has(b["body"]):
            res.append(path)
    return sorted(res)


def valid(t, ctx, depth=0):
    """(ok, reason-if-not) : provenance of a curve-point-valued term"""
    if depth > 60:
        return False, "too deep"
    op = t.op
    if op in ("to_teproj", "to_teaff"):
        return valid(t.args[0], ctx, depth + 1)
    if op == "gzero":
        return True, ""
    if op in ("gadd",):
        for a in t.args:
            ok, why = valid(a, ctx, depth + 1)
            if not ok:
                return ok, why
        return True, ""
    if op in ("gneg", "gdbl"):
        return valid(t.args[0], ctx, depth + 1)
    if op in ("gsmul", "gsmulbig"):
        return valid(t.args[0], ctx, depth + 1)
    if op == "ite":
        for a in t.args[1:]:
            ok, why = valid(a, ctx, depth + 1)
            if not ok:
                return ok, why
        return True, ""
    if op == "field" and t.args[1] == "inner":
        return valid_element(t.args[0], ctx, depth + 1)
    if op == "struct" and t.args[0] in ("TEProj", "TEAff"):
        # coordinates: only inside the designated coordinate constructors (decode / Elligator) or validated constants
        if ctx["fn"] in ctx["coordinate_constructors"]:
            return True, ""
        co = dict(zip(t.args[1], t.args[2:]))
        if all(v.op == "felem" for v in co.values()):
            x, y = co["x"].args[1], co["y"].args[1]
            z = co.get("z")
            zi = z.args[1] if z is not None else 1
            if zi != 0:
                q = K.Q
                ax, ay = x * pow(zi, -1, q) % q, y * pow(zi, -1, q) % q
                if (ax, ay) in ctx["valid_points"] and ("t" not in co or (co["t"].args[1] * zi - x * y) % q == 0):
                    return True, ""
            return False, "constant coordinates that are not a validated constant (identity / generator)"
        return False, "curve point built from raw coordinates outside decode / Elligator: %s" % Tm.show(t, maxdepth=4)
    if op in ("proj",) and t.args[0].op == "fold":
        fo = t.args[0]
        for a in list(fo.args[3]) + list(fo.args[4]):
            ok, why = valid(a, ctx, depth + 1) if a.op != "sym" else (True, "")
            if not ok:
                return ok, why
        return True, ""
    if op == "sym":
        return True, ""       # loop-carried value whose initial / next values are checked at the fold
    if op == "item_of":
        return valid_seq(t.args[0], ctx, depth + 1)
    if op == "payload":
        return valid(t.args[0], ctx, depth + 1)
    if op == "variant":
        return all(valid(a, ctx, depth + 1)[0] for a in t.args[1:]), "variant payload"
    return False, "provenance outside VALID: %s" % Tm.show(t, maxdepth=5)


def valid_element(t, ctx, depth):
    """an Element / AffinePoint valued term"""
    op = t.op
    if op == "param":
        return True, ""
    if op in ("decoded", "elligator_out"):
        return True, ""
    if op == "sym":
        return True, ""
    if op == "struct" and t.args[0] in POINTS and t.args[1] == ("inner",):
        return valid(t.args[2], ctx, depth + 1)
    if op == "struct" and t.args[0] == "min_curve::element::Element":
        return True, ""
    if op == "item_of":
        return valid_seq(t.args[0], ctx, depth + 1)
    if op == "ite":
        a = valid_element(t.args[1], ctx, depth + 1)
        b = valid_element(t.args[2], ctx, depth + 1)
        return (a[0] and b[0]), (a[1] or b[1])
    if op == "payload":
        return valid_element(t.args[0], ctx, depth + 1)
    if op == "field" and t.args[0].op in ("item_of", "sym", "param"):
        return valid_element(t.args[0], ctx, depth + 1)       # tuple component of a valid item (zip)
    if op in ("gadd", "gneg", "gdbl", "gsmul", "gsmulbig", "gzero", "to_teproj", "to_teaff"):
        return valid(t, ctx, depth + 1)
    if op == "proj" and t.args[0].op == "fold":
        return valid(t, ctx, depth + 1)
    if op == "const":
        return True, ""
    return False, "element of unknown provenance: %s" % Tm.show(t, maxdepth=5)


def valid_seq(s, ctx, depth):
    op = s.op
    if op == "param":
        return True, ""
    if op == "seq_map_t":
        item, body, inner = s.args
        ok, why = valid_seq(inner, ctx, depth + 1)
        if not ok:
            return ok, why
        return valid(body, ctx, depth + 1) if not body.op == "struct" or body.args[0] not in POINTS else valid_element(body, ctx, depth + 1)
    if op == "seq_map" and s.args[0].op == "fn" and s.args[0].args[0] in ("to_teaff", "to_teproj"):
        return valid_seq(s.args[1], ctx, depth + 1)
    if op in ("rev", "iter", "zip"):
        return all(valid_seq(a, ctx, depth + 1)[0] for a in s.args), "sequence adaptor"
    if op == "index" and s.args[1].op == "rangefull":
        return valid_seq(s.args[0], ctx, depth + 1)
    return False, "sequence of unknown provenance: %s" % Tm.show(s, maxdepth=5)


def prov(rep, cfg, facts):
    loc = c02.decode_summary(cfg, rep)
    pe = cfg.p_elligator(rep)
    pd = cfg.p_decode(rep)
    # the decoder and the Elligator map, together with private helpers that only they call (a routine split in two is still that routine:
    # its results are what VALID / FUNNEL judge through the entry point)
    coordinate_constructors = C.private_helpers_of(cfg.prog, {pd, pe})
    if cfg.name == "M":
        # the minimal backend funnels coordinate construction through Element::new / new_checked / from_affine
        coordinate_constructors |= {p for p in cfg.prog.bodies if re.match(r"min_curve::element::Element::(new|new_checked|from_affine)$", p)}
    # validated constant points (affine), from the CONST rule's inputs
    zeta_c = cfg.prog.consts.get("ark_curve::constants::ZETA") or cfg.prog.consts.get("min_curve::constants::ZETA")
    zeta = K.felt(zeta_c["value"]["val"], "fq")[1] if zeta_c else None
    gen = K.decaf_decode_int(K.ENC_GENERATOR, zeta) if zeta else None
    valid_points = {(0, 1)} | ({gen} if gen else set())
    n_sites = 0
    sites_by_fn = {}
    for path in bodies_constructing(cfg):
        b = cfg.prog.bodies[path]
        if b["dk"] not in ("Fn", "AssocFn"):
            continue     # constants: CONST rule
        loc2 = dict(loc)
        loc2.pop(path, None)
        out = cfg.run(path, local=loc2)
        ctx = {"fn": path, "coordinate_constructors": coordinate_constructors, "valid_points": valid_points}
        for pc, kind, args, site in out.effects:
            if kind != "construct" or args[0] not in POINTS:
                continue
            fn = site.get("fn")
            ctx["fn"] = fn
            n_sites += 1
            names = site.get("names", ())
            if "inner" in names:
                inner = args[1 + names.index("inner")]
                ok, why = valid(inner, ctx)
            else:
                # minimal backend: struct literal with x,y,z,t - allowed only in the designated coordinate constructors,
                # in group-law formulas over existing elements, or with validated constant coordinates
                ok = fn in coordinate_constructors or is_group_formula_site(cfg, fn)
                why = "" if ok else "Element built from raw coordinates outside decode / Elligator / the group-law formulas"
                if not ok:
                    co = dict(zip(names, args[1:]))
                    if all(isinstance(v, Tm.T) and v.op == "felem" for v in co.values()) and co.get("z") is not None and co["z"].args[1] != 0:
                        zi = pow(co["z"].args[1], -1, K.Q)
                        ok = (co["x"].args[1] * zi % K.Q, co["y"].args[1] * zi % K.Q) in valid_points
            key = "PROV/%s/%s" % (cfg.name, norm_path(fn))
            sites_by_fn.setdefault(key, []).append((ok, why, site.get("sp")))
        for u in out.unmodelled:
            rep.unmodelled.append("%s %s: %s" % (cfg.name, norm_path(path), u))
    for key, lst in sorted(sites_by_fn.items()):
        bad = [(why, sp) for ok, why, sp in lst if not ok]
        rep.ob(key, not bad, "every construction site of Element/AffinePoint must wrap a curve point with provenance in VALID; %d site(s) here%s" % (
            len(lst), "" if not bad else ": " + "; ".join("%s (%s)" % x for x in bad[:3])), where=lst[0][2],
            sample={"obligation": key, "sites": len(lst)})
    return n_sites


def valid_decode(rep, cfg):
    """every point the decoder hands out lies on the curve (and has T = XY/Z): polynomial identities in s on the success flow, modulo the
    CONTRACT of the square-root routine on that flow (it reported `square`: v^2 * den = num) and S^2 = 1 for the sign selection.
    Decided on the code's own coordinates; membership in the image 2E of the decaf group beyond the curve equation is the Decaf theorem."""
    from . import poly as P_
    p = cfg.p_decode(rep)
    if p is None:
        return
    out = cfg.run(p)
    errs, oks, other = C.split_result(rep, cfg, out)
    key = "VALID/%s/decode" % cfg.name
    if len(oks) != 1 or C.coords(oks[0][1]) is None:
        rep.ob(key, False, "decode must have exactly one success flow returning coordinates", where=cfg.where(p))
        return
    pc, val = oks[0]
    X, Y, Z, T = C.coords(val)
    sqs = [c for c in pc if c.op == "isqrt_sq"]
    for c in sqs:
        X, Y, Z, T = (Tm.assume(t_, c, True) for t_ in (X, Y, Z, T))
    NV = P_.Norm(K.Q)
    mul, sub, add = (lambda u, v: mk("mul", u, v)), (lambda u, v: mk("sub", u, v)), (lambda u, v: mk("add", u, v))
    a_, d_ = mk("felem", "fq", K.A_COEFF % K.Q), mk("felem", "fq", K.D_COEFF)
    eqs = {"a*X^2 + Y^2 = Z^2 + d*T^2": sub(add(mul(a_, mul(X, X)), mul(Y, Y)), add(mul(Z, Z), mul(d_, mul(T, T)))), "X*Y = Z*T": sub(mul(X, Y), mul(Z, T))}
    bad = []
    for nm, ob in eqs.items():
        res, probs = P_.reduce_modulo_isqrt(NV, NV.poly(ob), True, 0)
        if res or probs:
            bad.append("%s: remainder %s %s" % (nm, NV.show(res, 3), probs[:1]))
    rep.ob(key, not bad and len(sqs) == 1 and not out.unmodelled,
           "every successfully decoded point must satisfy the curve equation and T*Z = X*Y for all s, given the square-root contract on the success flow; %s" % ("; ".join(bad) or "ok"),
           where=cfg.where(p), sample={"obligation": key, "identities": 2})


def is_group_formula_site(cfg, fn):
    """cfg M: add / double / neg / conditional_select build an Element from coordinates of existing elements (C04 decides the formulas)"""
    return bool(re.search(r"<min_curve::element::Element as core::ops::(Add|Neg)>::|min_curve::element::Element::double$|ConditionallySelectable>::conditional_select$", fn))


def entry_values(rep, cfg):
    """the trait-level constructors return decoder / group-operation outputs"""
    if cfg.name != "A":
        return
    loc = c02.decode_summary(cfg, rep)
    p = cfg.one(rep, "AffineRepr::from_random_bytes", lambda x: x.endswith("::from_random_bytes") and "AffineRepr" in x)
    if p:
        out = cfg.run(p, local=loc)
        flows = C.expand_flows(out.flows)
        bad = []
        some = 0
        for pc, v in flows:
            if v.op == "variant" and v.args[0] == "Some":
                some += 1
                kind, d = c02.strip_point(v.args[1])
                if kind != "affine" or not any(c is mk("decode_ok", d.args[0]) for c in pc):
                    bad.append(Tm.show(v, maxdepth=5))
            elif v is not Tm.variant("None"):
                bad.append(Tm.show(v, maxdepth=5))
        rep.ob("PROV/A/AffineRepr::from_random_bytes:value", some >= 1 and not bad,
               "from_random_bytes may only hand out the decoder's output (or None); offending flows: %s" % bad[:2], where=cfg.where(p))


def samplers(rep, cfg):
    """rejection samplers: the only values handed out are decoder outputs (the raw random curve point only feeds the encoder/decoder)"""
    if cfg.name != "A":
        return
    loc = c02.decode_summary(cfg, rep)
    for path, b in sorted(cfg.prog.bodies.items()):
        if not (path.endswith("::sample") and "Distribution" in path and ("Element" in path or "AffinePoint" in path) and "fields::" not in path):
            continue
        out = cfg.run(path, local=loc)
        vals = [a[0] for pc, kind, a, site in out.effects if kind == "loop_return"]
        for pc, v in C.expand_flows(out.flows):
            if v.op not in ("bottom", "unit"):
                vals.append(v)
        bad = []
        for v in vals:
            x = v
            while x.op == "payload":
                x = x.args[0]
            kind, d = c02.strip_point(v) if v.op == "struct" else ("element" if True else None, None)
            ok = False
            for t in Tm.subterms(v):
                if t.op == "decoded":
                    ok = True
            raw = [t for t in Tm.subterms(v) if t.op in ("uniform_rand", "rng_sample", "te_from_random_bytes") and not any(t in set(Tm.subterms(dd)) for dd in Tm.subterms(v) if dd.op == "decoded")]
            if not ok or raw:
                bad.append(Tm.show(v, maxdepth=4))
        rep.ob("PROV/A/%s" % norm_path(path), bool(vals) and not bad,
               "a sampler may only return values that come out of the decoder (rejection sampling until decode succeeds); returned: %s" % ([Tm.show(v, maxdepth=3) for v in vals][:3] if not bad else bad[:2]),
               where=cfg.where(path))


def run(rep, facts, tier):
    rep.explanation = (
        "PROV: Element.inner / AffinePoint.inner are pub(crate) and the minimal backend's coordinates are private, so values of these types arise only "
        "at construction sites inside the crate. Every body whose resolved HIR contains such a site is interpreted; the wrapped point's term must have "
        "provenance in VALID (decode / Elligator output, validated constant, group ops, representation changes and selections over VALID, inner point of an "
        "existing element, element-wise maps over valid sequences). CONST: published constants are valid group elements. Typestate, not sampling.")
    rep.rules += ["PROV", "CONST", "WIT", "SELECT", "VALID (decode and Elligator outputs lie on the curve, modulo the square-root contract)"]
    rep.trusted += ["rustc privacy checking (fields are not constructible downstream)", "arkworks group operations preserve the subgroup", "summary table"]
    rep.assumptions += ["decode and Elligator outputs lie on the curve with T = XY/Z: DECIDED here (VALID rules, modulo the square-root contract); that they lie in the image 2E of the decaf group is the Decaf theorem (conformance to the specified maps is C01/C07)",
                        "r1cs R1CSVar::value construction sites expose what the constraint system admitted and are classified under C14"]
    counts = {}
    for name, f in facts.items():
        if name == "R":
            continue
        cfg = Cfg(f)
        counts[name] = prov(rep, cfg, f)
        valid_decode(rep, cfg)
        from . import groupops
        groupops.config_hooks(rep, cfg, "C06")
        from . import groupops
        groupops.check_select(rep, cfg)     # PROV admits the selection site as "coordinates of existing elements": they must be matching ones
        entry_values(rep, cfg)
        samplers(rep, cfg)
        from . import c01
        c01.isqrt_zero_cases(rep, cfg)      # decode hands out a point only if ISQRT(1, 0) reports "not square" (s = -1 has den = 0)
        c17.curve_constants(rep, f, name)
    # the other coordinate-level source of elements: the Elligator map's output lies on the curve (C07's VALID instances, both builds)
    from . import c07
    from .common import import_rules
    nv = import_rules(rep, c07, {k: v for k, v in facts.items() if k != "R"}, tier, "MAP", pred=lambda k: k.startswith("VALID/"))
    rep.floor("elligator_validity_instances", nv, 2)
    rep.analysed["construction_sites"] = counts
    if "A" in counts:
        rep.floor("construction_sites_A", counts["A"], 16)
    if "M" in counts:
        rep.floor("construction_sites_M", counts["M"], 3)
    from . import witness
    witness.check(rep, "C06", tier)
