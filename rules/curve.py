"""Shared helpers for the curve-level rules (decode / encode / Elligator / entry-point funnels)."""
import re
from . import engine as E, summaries as S, terms as Tm, poly as P, consts as K
from .terms import mk, lit, ite, field, variant, is_variant, payload, TRUE, FALSE
from .common import norm_path
from spec import decaf_spec as SP


class Cfg:
    """one configuration: program + cached interpretations"""

    def __init__(self, facts):
        self.facts = facts
        self.name = facts["_cfg"]
        self.prog = E.Program(facts)
        self.cache = {}
        self.norm = P.Norm(K.Q)

    def find(self, pred):
        return [p for p in self.prog.bodies if pred(p)]

    def one(self, rep, what, pred):
        c = self.find(pred)
        if len(c) != 1:
            rep.fail_closed("anchor %s: expected exactly one body in cfg %s, found %d %s" % (what, self.name, len(c), c[:3]))
            return None
        return c[0]

    def run(self, path, mode="abstract", local=None, opts=None):
        key = (path, mode, tuple(sorted((local or {}).keys())))
        if key in self.cache:
            return self.cache[key]
        summ = S.Summaries(abstract_fields=(mode != "deep"), abstract_group=(mode == "group"), local=local,
                           abstract_glue=(mode not in ("glue", "deep")))
        I = E.Interp(self.prog, summ, opts or {})
        out = I.run(path)
        out.interp = I
        self.cache[key] = out
        return out

    # anchors ------------------------------------------------------------------------------------
    def p_decode(self, rep):
        return self.one(rep, "vartime_decompress", lambda p: p.endswith("::vartime_decompress") and "r1cs" not in p)

    def p_encode(self, rep):
        return self.one(rep, "vartime_compress_to_field", lambda p: p.endswith("::vartime_compress_to_field") and "r1cs" not in p)

    def p_compress(self, rep):
        return self.one(rep, "vartime_compress", lambda p: p.endswith("::vartime_compress") and "r1cs" not in p)

    def p_elligator(self, rep):
        return self.one(rep, "elligator_map", lambda p: p.endswith("::elligator_map") and "r1cs" not in p)

    def where(self, path):
        b = self.prog.bodies.get(path)
        return b["sp"] if b else None


def static_callers(prog):
    """callee path -> set of caller paths, from the resolved call and function-reference nodes of every body (no interpretation)"""
    cached = getattr(prog, "_static_callers", None)
    if cached is not None:
        return cached
    res = {}

    def walk(n, caller):
        if isinstance(n, dict):
            c = n.get("callee")
            if isinstance(c, dict):
                for pth in ((c.get("inst") or {}).get("path"), c.get("path")):
                    if pth:
                        res.setdefault(pth, set()).add(caller)
            r = n.get("r")
            if isinstance(r, dict) and r.get("res") == "Def" and str(r.get("dk", "")) in ("Fn", "AssocFn"):
                cc = r.get("callee") or {}
                for pth in ((cc.get("inst") or {}).get("path"), cc.get("path"), r.get("path")):
                    if pth:
                        res.setdefault(pth, set()).add(caller)
            for v in n.values():
                walk(v, caller)
        elif isinstance(n, list):
            for v in n:
                walk(v, caller)
    for path, b in prog.bodies.items():
        walk(b.get("body"), path)
    prog._static_callers = res
    return res


def private_helpers_of(prog, roots):
    """roots plus every non-public function all of whose callers in the crate are already in the set (helpers a routine was split into)"""
    callers = static_callers(prog)
    cur = set(r for r in roots if r)
    changed = True
    while changed:
        changed = False
        for path, b in prog.bodies.items():
            if path in cur or b.get("dk") not in ("Fn", "AssocFn") or b.get("vis") == "Public" or b.get("impl_trait_def"):
                continue
            cs = callers.get(path) or set()
            if cs and cs <= cur:
                cur.add(path)
                changed = True
    return cur


def coords(t):
    """(X, Y, Z, T) of an element-valued term in either backend, or None"""
    if t.op == "struct" and t.args[0].endswith("::Element") and "inner" in t.args[1]:
        t = field(t, "inner")
    if t.op == "struct" and set(("x", "y", "z", "t")) <= set(t.args[1]):
        return tuple(field(t, k) for k in ("x", "y", "z", "t"))
    if t.op == "update_field":
        return tuple(field(t, k) for k in ("x", "y", "z", "t"))
    return None


def element_coords_of_param(cfg, pterm):
    base = field(pterm, "inner") if cfg.name in ("A", "R") else pterm
    return tuple(field(base, k) for k in ("x", "y", "z", "t"))


def flows_of(out):
    """[(canonical guard conds frozenset, value)] for each return flow"""
    return out.flows


def expand_flows(flows, limit=64, deep=False):
    """split flows whose value is a top-level ITE into one flow per leaf (path condition extended).
    deep: tuples merged component-wise are split as well, on the outermost condition found in their components"""
    out = []

    def conj(pc):
        # a conjunction on the path is its conjuncts on the path
        r = []
        for c_ in pc:
            stack = [c_]
            while stack:
                x = stack.pop(0)
                if isinstance(x, Tm.T) and x.op == "and":
                    stack = list(x.args) + stack
                else:
                    r.append(x)
        return tuple(r)
    work = [(conj(pc), v) for pc, v in flows]
    while work:
        pc, v = work.pop(0)
        pc = conj(pc)
        c = Tm.first_branch_cond(v) if deep and v.op == "tuple" else None
        if c is not None and len(out) + len(work) < limit:
            work.insert(0, (pc + (Tm.not_(c),), Tm.assume(v, c, False)))
            work.insert(0, (pc + (c,), Tm.assume(v, c, True)))
        elif v.op == "ite" and len(out) + len(work) < limit:
            work.insert(0, (pc + (Tm.not_(v.args[0]),), v.args[2]))
            work.insert(0, (pc + (v.args[0],), v.args[1]))
        else:
            out.append((pc, v))
    return out


def cond_leaves(ck, acc):
    """atoms of a canonical condition key (poly.Norm.cond)"""
    if ck[0] == "not":
        cond_leaves(ck[1], acc)
    elif ck[0] in ("and", "or", "iff", "ite"):
        for x in ck[1:]:
            cond_leaves(x, acc)
    elif ck[0] not in ("true", "false"):
        acc.add(ck)
    return acc


def cond_eval(ck, env):
    t = ck[0]
    if t == "true":
        return True
    if t == "false":
        return False
    if t == "not":
        return not cond_eval(ck[1], env)
    if t == "and":
        return all(cond_eval(x, env) for x in ck[1:])
    if t == "or":
        return any(cond_eval(x, env) for x in ck[1:])
    if t == "iff":
        return cond_eval(ck[1], env) == cond_eval(ck[2], env)
    if t == "ite":
        return cond_eval(ck[2], env) if cond_eval(ck[1], env) else cond_eval(ck[3], env)
    return env[ck]


def same_boolean_function(N, pcs_a, pcs_b, limit=12):
    """do two disjunctions of path conditions (lists of lists of condition terms) denote the same boolean function of their atoms?
    returns (verdict, witness row or reason)"""
    import itertools
    ka = [[N.cond(c) for c in pc] for pc in pcs_a]
    kb = [[N.cond(c) for c in pc] for pc in pcs_b]
    atoms = set()
    for ks in ka + kb:
        for ck in ks:
            cond_leaves(ck, atoms)
    atoms = sorted(atoms, key=repr)
    if len(atoms) > limit:
        return False, "too many atoms (%d)" % len(atoms)
    for vals in itertools.product((False, True), repeat=len(atoms)):
        env = dict(zip(atoms, vals))
        va = any(all(cond_eval(ck, env) for ck in ks) for ks in ka)
        vb = any(all(cond_eval(ck, env) for ck in ks) for ks in kb)
        if va != vb:
            return False, {str(a)[:60]: int(b) for a, b in env.items()}
    return True, "%d rows" % 2 ** len(atoms)


def under_pc(pc, v):
    """(pc', v') with every condition and the value simplified under the conditions that precede it on the path"""
    facts, newpc = [], []
    for c in pc:
        for a, t in facts:
            c = Tm.assume(c, a, t)
        if c is Tm.TRUE:
            continue
        if c.op == "not":
            a, t = c.args[0], False
        elif c.op == "ne":
            a, t = Tm.eq(*c.args), False
        else:
            a, t = c, True
        facts.append((a, t))
        newpc.append(c)
    for a, t in facts:
        v = Tm.assume(v, a, t)
    return tuple(newpc), v


def split_result(rep, cfg, out):
    """for a Result-returning routine: (list of (pc, errvalue), list of (pc, okvalue))"""
    errs, oks, other = [], [], []
    for pc, v in expand_flows(out.flows):
        if v.op == "variant" and v.args[0] == "Err":
            errs.append((pc, v.args[1]))
        elif v.op == "variant" and v.args[0] == "Ok":
            oks.append((pc, v.args[1]))
        else:
            other.append((pc, v))
    return errs, oks, other


def bytes_of_encoding_param(cfg, p="self"):
    return field(mk("param", p), "0")


def decode_guard_spec(bytes_t):
    """the four rejection conditions of the specification, as terms over the 32 input bytes"""
    s = mk("from_canon_bytes", "fq", bytes_t)
    d = SP.decode(s)
    return {
        "top-three-bits": Tm.ne(Tm.intop("shr", Tm.index(bytes_t, lit(31)), lit(5)), lit(0)),
        "non-canonical": Tm.not_(mk("is_canonical", "fq", bytes_t)),
        "negative": d["s_negative"],
        "non-square": Tm.not_(d["was_square"]),
    }, d


def pkey(N, t):
    return N.pkey(N.poly(t))


def explain_poly_mismatch(N, got, want, limit=6):
    a, b = N.poly(got), N.poly(want)
    d = N.add(a, b, -1)
    ids = sorted({x for m in list(d)[:40] for x, _ in m})
    return "code:  %s\nspec:  %s\ndiff:  %s\natoms: %s" % (N.show(a, limit), N.show(b, limit), N.show(d, limit),
                                                          "; ".join(N.describe_atom(i) for i in ids[:8]))
