"""C02 — decoding accepts exactly the canonical encodings of the specification.

GUARD-SET: the rejection conditions of decode are exactly the four of the specification.
CANON-PARSE [S]: with the conversion glue interpreted, the canonical check is `repr >= MODULUS`
(cfg A; constant evaluated to q) resp. `to_bytes_le(from_raw_bytes(b)) != b` (cfg M).
FUNNEL [S]: every decoding entry point reduces to decode(the input bytes) with only the allowed
extra guards.  PANIC [S]: panic-capable sites on the decode paths are tabled with a reason.
"""
import re
from . import terms as Tm, consts as K
from .terms import mk, lit, field, TRUE, FALSE, is_variant, payload, variant
from . import curve as C
from .curve import Cfg, pkey
from .common import norm_path
from spec import decaf_spec as SP


# ---- GUARD-SET -----------------------------------------------------------------------------------

def guard_set(rep, cfg):
    """the decoder's verdict as a boolean function of the specification's four guard conditions: decided by a truth table over the atoms, so
    that the order of the checks, their grouping into `||` / early returns, and which of them share an `if` do not matter"""
    import itertools
    p = cfg.p_decode(rep)
    if p is None:
        return
    out = cfg.run(p)
    N = cfg.norm
    errs, oks, other = C.split_result(rep, cfg, out)
    bytes_t = C.bytes_of_encoding_param(cfg)
    spec, _ = C.decode_guard_spec(bytes_t)
    key = "GUARD/%s/decode" % cfg.name

    def leaves(ck, acc):
        if ck[0] in ("not",):
            leaves(ck[1], acc)
        elif ck[0] in ("and", "or", "iff"):
            for x in ck[1:]:
                leaves(x, acc)
        elif ck[0] == "ite":
            for x in ck[1:]:
                leaves(x, acc)
        elif ck[0] not in ("true", "false"):
            acc.add(ck)
        return acc

    def ev(ck, env):
        t = ck[0]
        if t == "true":
            return True
        if t == "false":
            return False
        if t == "not":
            return not ev(ck[1], env)
        if t == "and":
            return all(ev(x, env) for x in ck[1:])
        if t == "or":
            return any(ev(x, env) for x in ck[1:])
        if t == "iff":
            return ev(ck[1], env) == ev(ck[2], env)
        if t == "ite":
            return ev(ck[2], env) if ev(ck[1], env) else ev(ck[3], env)
        return env[ck]
    spec_c = {nm: N.cond(t) for nm, t in spec.items()}
    spec_atoms = set()
    for ck in spec_c.values():
        leaves(ck, spec_atoms)
    flows = [("err", [N.cond(c) for c in pc], evv) for pc, evv in errs] + [("ok", [N.cond(c) for c in pc], v) for pc, v in oks]
    code_atoms = set()
    for _, pcs, _ in flows:
        for ck in pcs:
            leaves(ck, code_atoms)
    for pc, evv in errs:
        okv = evv.op == "variant" and evv.args[0] == "InvalidEncoding"
        rep.ob("%s:err-value" % key, okv, "rejections must return EncodingError::InvalidEncoding; got %s" % Tm.show(evv, maxdepth=3), where=cfg.where(p), nontrivial=False)
    foreign = code_atoms - spec_atoms
    rep.ob("%s:foreign-condition" % key, not foreign and not other,
           "the verdict must depend on the specification's four conditions only; foreign: %s" % [str(a)[:120] for a in sorted(foreign, key=repr)][:3], where=cfg.where(p))
    atoms = sorted(spec_atoms | code_atoms, key=repr)
    if len(atoms) > 12:
        rep.ob("%s:success-gate" % key, False, "too many condition atoms (%d) for the truth table" % len(atoms), where=cfg.where(p))
        return
    missing = {nm: None for nm in spec_c}
    gate_bad = None
    overlap = None
    for vals in itertools.product((False, True), repeat=len(atoms)):
        env = dict(zip(atoms, vals))
        hit = [kind for kind, pcs, _ in flows if all(ev(ck, env) for ck in pcs)]
        code_ok = "ok" in hit
        if len(hit) != 1 and overlap is None:
            overlap = (env, hit)
        spec_ok = not any(ev(ck, env) for ck in spec_c.values())
        if code_ok != spec_ok and gate_bad is None:
            gate_bad = (env, code_ok, spec_ok)
        for nm, ck in spec_c.items():
            if ev(ck, env) and code_ok and missing[nm] is None:
                missing[nm] = env
    def show_env(env):
        names = {v: k for k, v in spec_c.items()}
        return ", ".join("%s=%s" % (names.get(a, names.get(("not", a), str(a)[:50])), int(b)) for a, b in env.items())
    for nm in spec_c:
        rep.ob("%s:%s" % (key, nm), missing[nm] is None,
               "decode must reject whenever [%s] holds; %s" % (nm, "it does" if missing[nm] is None else "it ACCEPTS under " + show_env(missing[nm])),
               where=cfg.where(p), sample={"obligation": "%s:%s" % (key, nm), "spec_guard": Tm.show(spec[nm], maxdepth=6), "rows": 2 ** len(atoms)})
    rep.ob("%s:success-gate" % key, gate_bad is None and len(oks) >= 1,
           "Ok must be returned iff none of the four rejection conditions holds (truth table over %d atoms); %s" % (
               len(atoms), "agrees on all %d rows" % 2 ** len(atoms) if gate_bad is None else "differs at %s: code %s, specification %s" % (
                   show_env(gate_bad[0]), "accepts" if gate_bad[1] else "rejects", "accepts" if gate_bad[2] else "rejects")),
           where=cfg.where(p))
    rep.ob("%s:flows-partition" % key, overlap is None, "the return flows must partition the input space; row %s is covered by %s" % (
        show_env(overlap[0]) if overlap else "-", overlap[1] if overlap else "-"), where=cfg.where(p), nontrivial=False)


# ---- CANON-PARSE ----------------------------------------------------------------------------------

def modulus_of_bigint_const(t):
    """integer value of struct(ark_ff::BigInt,(0),array(lits))"""
    if t.op == "struct" and t.args[0].endswith("BigInt"):
        a = t.args[2]
        if a.op == "array" and all(Tm.is_lit(x) for x in a.args):
            return K.limbs_to_int([x.args[0] for x in a.args], 64)
    return None


def from_bigint_rule(rep, cfg):
    """PrimeField::from_bigint of each field: None iff repr >= MODULUS(=p), else from_le_limbs(repr.0)"""
    for f in ("fq", "fr", "fp"):
        ps = cfg.find(lambda p: re.match(r"fields::%s::arkworks::<impl ark_ff::PrimeField for .*>::from_bigint$" % f, p) is not None)
        if len(ps) != 1:
            rep.fail_closed("from_bigint of %s not found in cfg %s" % (f, cfg.name))
            continue
        out = cfg.run(ps[0], mode="glue")
        v = out.value
        repr_ = mk("param", "repr")
        ok = False
        why = Tm.show(v, maxdepth=6)
        if v.op == "ite" and v.args[0].op == "ge" and v.args[0].args[0] is repr_:
            m = modulus_of_bigint_const(v.args[0].args[1])
            some = v.args[2]
            ok = (m == K.MODULI[f] and v.args[1] is variant("None") and some is variant("Some", mk("from_le_limbs", f, field(repr_, "0"))))
            why = "guard constant = %s (modulus of %s: %s), reject branch %s, accept branch %s" % (
                hex(m) if m is not None else None, f, m == K.MODULI[f], Tm.show(v.args[1]), Tm.show(some, maxdepth=4))
        rep.ob("CANON/%s/%s::from_bigint" % (cfg.name, f), ok,
               "from_bigint must be `if repr >= MODULUS {None} else {Some(from_le_limbs(repr.0))}` with MODULUS evaluating to p: %s" % why,
               where=cfg.where(ps[0]), sample={"obligation": "CANON/%s/%s::from_bigint" % (cfg.name, f), "term": Tm.show(v, maxdepth=5)})


def canon_parse(rep, cfg):
    p = cfg.p_decode(rep)
    if p is None:
        return
    out = cfg.run(p, mode="glue")
    B = C.bytes_of_encoding_param(cfg)
    key = "CANON/%s/decode-parse" % cfg.name
    errs, oks, other = C.split_result(rep, cfg, out)
    # find the flow whose own condition is the canonical check: the one that is not top-bits / sign / isqrt
    cand = []
    for pc, ev in errs:
        c = pc[-1]
        if Tm.contains(c, lambda s: s.op in ("sign", "isqrt_sq", "shr")):
            continue
        cand.append(c)
    if len(cand) != 1:
        rep.ob(key, False, "expected exactly one canonical-parse rejection in the glue-level decode, found %d: %s" % (len(cand), [Tm.show(c, maxdepth=5) for c in cand]), where=cfg.where(p))
        return
    c = cand[0]
    limbs = mk("le_u64_limbs", B)
    shapeA = c.op == "ge" and c.args[0] is mk("struct", "ark_ff::BigInt", ("0",), limbs) and modulus_of_bigint_const(c.args[1]) == K.Q
    red = mk("from_le_bytes_mod_order", "fq", B)
    shapeM = c is Tm.ne(mk("canon_bytes", red), B)
    s_want = mk("from_le_limbs", "fq", limbs) if shapeA else red
    # the parsed s that flows on is the reduction of the same bytes
    s_ok = any(Tm.contains(pc2[-1], lambda s: s is mk("sign", s_want)) for pc2, _ in errs)
    rep.ob(key, (shapeA or shapeM) and s_ok,
           "canonical check must be `LE-limbs(bytes) >= q` (arkworks build) or `to_bytes_le(from_raw_bytes(bytes)) != bytes` (minimal build), "
           "and the element that flows on must be the value of those same bytes; got guard %s" % Tm.show(c, maxdepth=7),
           where=cfg.where(p), sample={"obligation": key, "guard": Tm.show(c, maxdepth=6), "shape": "A" if shapeA else ("M" if shapeM else "none")})
    for u in out.unmodelled:
        rep.unmodelled.append("%s(glue): %s" % (cfg.name, u))


# ---- FUNNEL ----------------------------------------------------------------------------------------

def decode_summary(cfg, rep):
    p = cfg.p_decode(rep)
    if p is None:
        return {}

    def summ(ctx):
        b = field(ctx.args[0], "0")
        return Tm.ite(mk("decode_ok", b), variant("Ok", mk("decoded", b)), variant("Err", variant("InvalidEncoding")))
    return {p: summ}


POINT_TYPES = ("ark_curve::element::projective::Element", "ark_curve::element::affine::AffinePoint", "ark_curve::encoding::Encoding",
               "min_curve::element::Element", "min_curve::encoding::Encoding")


def entry_points(cfg):
    """bodies that produce Element / AffinePoint / Encoding from bytes, readers or encodings"""
    eps = []
    for path, b in cfg.prog.bodies.items():
        tr = b.get("impl_trait_def", "")
        st = b.get("impl_self", "")
        name = path.split("::")[-1]
        if st in POINT_TYPES and ((tr == "core::convert::TryFrom" and name == "try_from") or
                                  (tr == "core::convert::From" and name == "from" and ("[u8" in b.get("impl_trait", "") or "Encoding" in b.get("impl_trait", ""))) or
                                  (tr == "ark_serialize::CanonicalDeserialize" and name == "deserialize_with_mode")):
            if st.endswith("Encoding") and tr == "core::convert::From" and "Element" in b.get("impl_trait", ""):
                continue   # Element -> Encoding is an encode entry point (C03)
            eps.append(path)
        if path.endswith("Encoding::decompress"):
            eps.append(path)
    return sorted(eps)


def strip_point(v):
    """Element / AffinePoint wrapper -> (kind, decoded-term or None)"""
    if v.op == "decoded":
        return "element", v
    if v.op == "struct" and v.args[0].endswith("AffinePoint"):
        inner = field(v, "inner")
        if inner.op == "to_teaff":
            inner = inner.args[0]
        if inner.op == "field" and inner.args[1] == "inner" and inner.args[0].op == "decoded":
            return "affine", inner.args[0]
    if v.op == "struct" and v.args[0].endswith("Encoding"):
        return "encoding", field(v, "0")
    return None, None


def input_bytes_ok(b, pc=()):
    """the 32 bytes that are decoded must be the entry point's own input, unmodified"""
    x = b
    if x.op == "index" and x.args[1].op == "struct" and x.args[1].args[0] in ("core::ops::Range", "core::ops::RangeTo"):
        d = dict(zip(x.args[1].args[1], x.args[1].args[2:]))
        if Tm.is_lit(d.get("end")) and d["end"].args[0] == 32 and (d.get("start") is None or d["start"] is lit(0)):
            # the first 32 bytes ARE the input only where the input is known to be 32 bytes long
            whole = x.args[0]
            if not any(c is Tm.eq(mk("len", whole), lit(32)) or c is Tm.eq(lit(32), mk("len", whole)) for c in pc):
                return False
            x = whole
    if x.op == "field" and x.args[1] == "0":
        x = x.args[0]
    if x.op == "read_bytes":
        x = x.args[0]
    return x.op == "param"


def funnel(rep, cfg):
    loc = decode_summary(cfg, rep)
    eps = entry_points(cfg)
    rep.analysed.setdefault("decode_entry_points", {})[cfg.name] = [norm_path(p) for p in eps]
    for p in eps:
        out = cfg.run(p, local=loc)
        key = "FUNNEL/%s/%s" % (cfg.name, norm_path(p))
        flows = C.expand_flows(out.flows)
        problems = []
        n_ok = 0
        for pc, v in flows:
            val = v
            is_res = v.op == "variant" and v.args[0] in ("Ok", "Err")
            if is_res and v.args[0] == "Err":
                # allowed rejecting conditions
                for c in pc:
                    if not allowed_guard(c):
                        problems.append("rejects/gates on a condition outside {decode failure, length != 32, read failure, mode arguments}: %s" % Tm.show(c, maxdepth=5))
                ev = v.args[1]
                last = pc[-1] if pc else TRUE
                if last.op == "not" and last.args[0].op == "decode_ok":
                    evs = Tm.show(ev, maxdepth=4)
                    if not ("InvalidEncoding" in evs or "InvalidData" in evs):
                        problems.append("decode failure is reported as %s" % evs)
                continue
            if is_res:
                val = v.args[1]
            kind, d = strip_point(val)
            if kind is None:
                problems.append("returns a value that is not the decoder's output: %s" % Tm.show(val, maxdepth=5))
                continue
            n_ok += 1
            if kind == "encoding":
                if not input_bytes_ok(d, pc):
                    problems.append("Encoding built from something else than the input bytes: %s" % Tm.show(d, maxdepth=5))
                continue
            b = d.args[0]
            if not input_bytes_ok(b, pc):
                problems.append("decodes bytes that are not the unmodified, whole input (a prefix is the input only under len == 32): %s" % Tm.show(b, maxdepth=5))
            if not any(c is mk("decode_ok", b) for c in pc):
                problems.append("hands out decoded(%s) on a path that does not require decode success" % Tm.show(b, maxdepth=3))
            for c in pc:
                if not allowed_guard(c):
                    problems.append("success gated by a condition outside the allowed set: %s" % Tm.show(c, maxdepth=5))
        # taking a fixed prefix / sub-slice of the input panics on shorter inputs unless the length was checked first
        for epc, kind_, eargs, site in out.effects:
            if kind_ != "index" or len(eargs) < 2 or not isinstance(eargs[1], Tm.T) or eargs[1].op != "struct" or not str(eargs[1].args[0]).startswith("core::ops::Range"):
                continue
            base = eargs[0]
            y = base
            while isinstance(y, Tm.T) and y.op == "field":
                y = y.args[0]
            if not (isinstance(y, Tm.T) and y.op == "param") or cfg.prog.bodies[p]["params"][0].get("ty", "").replace(" ", "").find("[u8]") < 0:
                continue
            d_ = dict(zip(eargs[1].args[1], eargs[1].args[2:]))
            hi = d_.get("end")
            if hi is not None and Tm.is_lit(hi):
                guarded = any(c_.op == "eq" and mk("len", base) in c_.args and any(Tm.is_lit(a_) and a_.args[0] >= hi.args[0] for a_ in c_.args) for c_ in epc)
                if not guarded:
                    problems.append("input[..%d] is taken without a preceding length check: panics on shorter inputs, silently truncates longer ones (%s)" % (hi.args[0], site.get("sp")))
        if n_ok == 0:
            problems.append("no success flow")
        rep.ob(key, not problems, "entry point must reduce to decode(input bytes) with only the allowed extra guards; " +
               ("ok (%d flows)" % len(flows) if not problems else "; ".join(sorted(set(problems))[:4])), where=cfg.where(p),
               sample={"obligation": key, "flows": [[Tm.show(c, maxdepth=3) for c in pc] + ["=> " + Tm.show(v, maxdepth=3)] for pc, v in flows][:4]})
        # slices of the wrong length are length errors
        b_ = cfg.prog.bodies[p]
        if b_.get("impl_trait_def") == "core::convert::TryFrom" and "&[u8]" in Tm_strip(b_.get("impl_trait", "")):
            want_len = any(v.op == "variant" and v.args[0] == "Err" and "InvalidSliceLength" in Tm.show(v.args[1], maxdepth=4)
                           and pc and is_len_guard(pc[-1]) for pc, v in flows)
            rep.ob(key + ":length", want_len, "slices whose length is not 32 must be rejected with InvalidSliceLength", where=cfg.where(p))
        for u in out.unmodelled:
            rep.unmodelled.append("%s %s: %s" % (cfg.name, norm_path(p), u))
    return eps


def Tm_strip(s):
    return re.sub(r"'[a-z_]+ ", "", s)


def is_len_guard(c):
    """len(<the input itself>) ==/!= 32  (the length of a prefix or sub-slice of the input is not a length check of the input)"""
    x = c.args[0] if c.op == "not" else c
    if x.op in ("eq", "ne") and any(Tm.is_lit(a) and a.args[0] == 32 for a in x.args):
        for a in x.args:
            if isinstance(a, Tm.T) and a.op == "len":
                y = a.args[0]
                while y.op == "field":
                    y = y.args[0]
                if y.op in ("param", "read_bytes"):
                    return True
    return False


def is_mode_guard(c):
    x = c.args[0] if c.op == "not" else c
    return x.op in ("is_variant", "matches") and x.args[0].op == "param" and x.args[0].args[0] in ("compress", "validate", "_compress", "_validate", "mode", "_mode")


def allowed_guard(c):
    x = c.args[0] if c.op == "not" else c
    if x.op in ("and", "or"):
        return all(allowed_guard(y) for y in x.args)      # a boolean combination of allowed guards tests nothing else
    if x.op == "decode_ok":
        return True
    if is_len_guard(c):
        return True
    if x.op == "is_variant" and x.args[0].op == "io_result":
        return True
    # dispatch on Compress / Validate mode arguments (not input bytes)
    if x.op in ("is_variant", "matches") and x.args[0].op == "param" and x.args[0].args[0] in ("compress", "validate", "_compress", "_validate", "mode", "_mode"):
        return True
    if x.op == "cfgflag":
        return True
    return False


# ---- PANIC ------------------------------------------------------------------------------------------

# (function def-path regex, kind) -> reason.  Sites on decode paths that can panic and why they cannot for any input bytes.
PANIC_TABLE = [
    (r"::deserialize_with_mode$", "unimplemented", "Compress::No / Validate::No are mode arguments chosen by the caller, not input bytes: outside C02's quantifier"),
    (r"::serialized_size$", "unimplemented", "mode argument, not input bytes"),
    (r"fields::f[qrp]::arkworks::.*deserialize_with_flags$", "expect", "chunk.try_into() after chunks_exact(8): every chunk has length 8 (discharged by the term: eq(8,8))"),
    (r"invsqrt::.*sqrt_ratio_zeta$", "index", "table lookups of the Sarkar square root: masked indices are C09's IDX rule; HashMap hits are C09's undecided part"),
    (r"min_curve::element::Element::new$", "expect", "debug-only on-curve assertion behind cfg!(debug_assertions) (release builds skip it); holds for decode outputs by the Decaf decoding lemma"),
    (r"::to_bytes_le$", "expect", "serialisation into a fixed 32/48-byte array is infallible"),
]


def panic_audit(rep, cfg, eps):
    loc = {}
    n_sites = 0
    for p in eps + [cfg.p_decode(rep)]:
        if p is None:
            continue
        for mode in ("abstract", "glue"):
            out = cfg.run(p, mode=mode)
            for pc, site in out.panics:
                if site.get("debug_only") or site.get("kind", "").startswith("debug_assert"):
                    continue
                n_sites += 1
                fn = site.get("fn", "")
                kind = site.get("kind", "")
                if pc and pc[-1] is FALSE:
                    continue
                reason = None
                for rx, k2, why in PANIC_TABLE:
                    if re.search(rx, fn) and (k2 == kind or k2 in kind):
                        reason = why
                if reason is None and pc and all(is_mode_guard(c_) for c_ in pc):
                    # wherever the site was moved to: it is reached only through tests of the caller's Compress / Validate arguments
                    reason = "reached only under the caller-chosen mode arguments %s (not input bytes): outside C02's quantifier" % [Tm.show(c_, maxdepth=3) for c_ in pc]
                key = "PANIC/%s/%s/%s" % (cfg.name, norm_path(fn), kind)
                rep.ob(key, reason is not None,
                       "panic-capable site (%s) reachable from decoding entry point %s under %s: %s" % (
                           kind, norm_path(p), Tm.show(pc[-1], maxdepth=4) if pc else "true", reason or "NOT in the panic table - a new unwrap/expect/index on a decode path"),
                       where=site.get("sp"), nontrivial=False)
    rep.analysed.setdefault("panic_sites_examined", {})[cfg.name] = n_sites


def run(rep, facts, tier):
    rep.explanation = (
        "GUARD-SET: the return flows of decode are extracted by abstract interpretation; the set of rejecting conditions (canonical "
        "boolean/polynomial forms) must equal the specification's four and the success flow must be gated by exactly their negations. "
        "CANON-PARSE: with the conversion glue interpreted the canonical check is `LE-limbs(bytes) >= q` with the constant evaluated to q "
        "(arkworks) or reduce-and-compare (minimal); from_bigint of all three fields has the same exact shape. FUNNEL: every decoding entry "
        "point enumerated from the compiler's impl table reduces to decode(unmodified input) with only length/read/mode guards. PANIC: "
        "non-debug panic sites reachable from those entry points are tabled with a reason.")
    rep.rules += ["GUARD-SET", "CANON-PARSE", "FUNNEL", "PANIC"]
    rep.trusted += ["rustc type checker / trait resolution", "summary table", "spec/decaf_spec.py"]
    rep.assumptions += ["ISQRT answers 'square?' correctly (C09)", "from_raw_bytes / to_bytes_le are canonical reduction / serialisation (C10, C11 trusted primitives)"]
    cfgs = {k: Cfg(f) for k, f in facts.items() if k in ("A", "M")}
    n_eps = 0
    for name, cfg in cfgs.items():
        guard_set(rep, cfg)
        canon_parse(rep, cfg)
        from . import c01
        c01.isqrt_zero_cases(rep, cfg)
        if name == "A":
            from_bigint_rule(rep, cfg)
        eps = funnel(rep, cfg)
        n_eps += len(eps)
        panic_audit(rep, cfg, eps)
    rep.floor("decode_entry_points_total", n_eps, 10)
    from . import witness
    witness.check(rep, "C02", tier)
