"""C17 — published constants are consistent with the moduli and curve they describe.

Rule family CONST: every constant is taken from the compiler's own const-evaluation of the
current tree (value trees dumped by the driver) and compared with the value / relation that
Python recomputes from the specification anchors (BLS parameter x, d, a, group order r).
Nothing is compared with a stored copy of the constant itself.
"""
import re
from . import consts as K
from .consts import Q, R, P, MODULI, felt, bigint, vint


def _field_consts(facts):
    """{(field, backend, NAME): const-record} for the inherent constants in fields/*.rs and wrappers"""
    out = {}
    for c in facts["consts"]:
        p = c["path"]
        m = re.match(r"fields::(fq|fr|fp)::(?:<impl fields::\1::(u64|u32)::wrapper::\w+>|(u64|u32)::wrapper::\w+)::(\w+)$", p)
        if m:
            out[(m.group(1), m.group(2) or m.group(3), m.group(4))] = c
        m = re.match(r"fields::(fq|fr|fp)::(B|N_8|N_32|N_64)$", p)
        if m:
            out[(m.group(1), "-", m.group(2))] = c
        m = re.match(r"fields::(fq|fr|fp)::(u64|u32)::wrapper::N$", p)
        if m:
            out[(m.group(1), m.group(2), "N")] = c
    return out


def _ark_consts(facts):
    """{(field, Trait, NAME): record} for the arkworks trait constants the crate provides"""
    out = {}
    for c in facts["consts"]:
        m = re.match(r"fields::(fq|fr|fp)::arkworks::<impl ark_ff::(\w+) for fields::\1::u64::wrapper::\w+>::(\w+)$", c["path"])
        if m:
            out[(m.group(1), m.group(2), m.group(3))] = c
    return out


def _ext(facts, selfty, name, trait=None):
    for t in facts.get("trait_consts", []):
        if t["self"] == selfty and t["name"] == name and (trait is None or t["trait"].split("::")[-1] == trait) and "value" in t:
            return t["value"].get("val")
    return None


ARK_CFG = {"fq": "ark_bls12_377::FrConfig", "fr": "ark_ed_on_bls12_377::FrConfig", "fp": "ark_bls12_377::FqConfig"}


def check_field(rep, facts, cfgname, f, backend_filter=None):
    p = MODULI[f]
    fc = _field_consts(facts)
    s, t = K.two_adicity(p - 1)
    nbits = p.bit_length()
    n8, n32, n64 = (nbits + 7) // 8, (nbits + 31) // 32, (nbits + 63) // 64

    def key(name, be):
        return "CONST/%s/fields::%s::%s%s" % (cfgname, f, (be + "::") if be not in ("-",) else "", name)

    seen_backends = sorted({be for (ff, be, n) in fc if ff == f and be in ("u64", "u32") and n == "MODULUS_LIMBS"})
    if not seen_backends:
        rep.fail_closed("no MODULUS_LIMBS constant found for field %s in cfg %s" % (f, cfgname))
        return
    rep.ob("CONST/spec/%s-modulus-prime" % f, K.is_prime(p), "modulus of %s recomputed from the specification anchors is prime" % f)

    g_ref = None  # generator value (canonical) once established
    for be in seen_backends:
        def get(name):
            return fc.get((f, be, name))

        def intc(name, want, why):
            c = get(name)
            if c is None:
                return
            got = bigint(c["value"]["val"]) if "arr" in str(c["value"]["val"])[:400] and "int" not in c["value"]["val"] else vint(c["value"]["val"])
            rep.ob(key(name, be), got == want, "%s = %s; %s requires %s" % (name, hex(got), why, hex(want)), where=c["sp"],
                   sample={"constant": c["path"], "evaluated": hex(got), "recomputed": hex(want), "relation": why})

        def fec(name, pred, why, want=None):
            c = get(name)
            if c is None:
                return None
            _, v, raw = felt(c["value"]["val"], f)
            ok = pred(v, raw)
            rep.ob(key(name, be), ok, "%s has canonical value %s (raw limbs %s); required: %s%s" % (
                name, hex(v), hex(raw), why, (" = " + hex(want)) if want is not None else ""), where=c["sp"],
                sample={"constant": c["path"], "canonical_value": hex(v), "relation": why})
            return v

        intc("MODULUS_LIMBS", p, "modulus from the specification (q = x^4-x^2+1, p = (x-1)^2 q/3 + x, r = decaf377 group order)")
        intc("MODULUS_MINUS_ONE_DIV_TWO_LIMBS", (p - 1) // 2, "(p-1)/2")
        intc("MODULUS_BIT_SIZE", nbits, "bit length of p")
        intc("TWO_ADICITY", s, "2-adic valuation of p-1")
        intc("TRACE_LIMBS", t, "odd part t of p-1 = 2^s t")
        intc("TRACE_MINUS_ONE_DIV_TWO_LIMBS", (t - 1) // 2, "(t-1)/2")
        fec("ZERO", lambda v, raw: v == 0, "0")
        fec("ONE", lambda v, raw: v == 1, "1 (Montgomery form R mod p)")
        fec("FIELD_SIZE_POWER_OF_TWO", lambda v, raw: v == pow(2, 8 * n8, p), "2^(8*N_8) mod p", pow(2, 8 * n8, p))
        fec("MINUS_ONE", lambda v, raw: v == p - 1, "p-1")
        fec("SENTINEL", lambda v, raw: raw >= p, "raw limb value >= p, so it is not the representation of any field element")
        fec("QUADRATIC_NON_RESIDUE", lambda v, raw: K.legendre(v, p) == -1, "a quadratic non-residue")
        # multiplicative generator: generator of F_p^*.  Decided for the part of the factorisation of p-1 in reach
        small, cof = K.small_prime_factors(p - 1)
        full = None
        if f == "fq":
            # q - 1 = x^4 - x^2 = x^2 (x-1)(x+1): a complete factorisation is in reach (three 64-bit numbers)
            x_ = K.X_BLS
            parts = [K.factorize(x_), K.factorize(x_ - 1), K.factorize(x_ + 1)]
            if all(pp is not None for pp in parts) and (x_ * x_ * (x_ - 1) * (x_ + 1)) == p - 1:
                full = sorted(set(sum(parts, [])))
        def is_gen(v, raw):
            if full is not None:
                return v != 0 and all(pow(v, (p - 1) // l, p) != 1 for l in full)
            return is_gen_partial(v, raw)
        def is_gen_partial(v, raw):
            if v == 0:
                return False
            for l in small:
                if pow(v, (p - 1) // l, p) == 1:
                    return False
            if cof != 1 and K.is_prime(cof) and pow(v, (p - 1) // cof, p) == 1:
                return False
            return True
        g = fec("MULTIPLICATIVE_GENERATOR", is_gen,
                ("a generator of the multiplicative group: g^((p-1)/l) != 1 for EVERY prime l | p-1 (complete factorisation via p-1 = x^2(x-1)(x+1): %s)" % full) if full is not None else
                "g^((p-1)/l) != 1 for every prime l | p-1 found by trial division below 2^20 (%s)%s" % (
                    small, " and for the prime cofactor" if cof != 1 and K.is_prime(cof) else ""))
        if g is not None:
            g_ref = g
            # the same value arkworks derives for this modulus (independent oracle)
            ext = _ext(facts, ARK_CFG[f], "GENERATOR", "MontConfig")
            if ext is not None:
                ev = felt(ext, f)[1]
                rep.ob(key("MULTIPLICATIVE_GENERATOR=arkworks", be), g == ev,
                       "crate's generator %s vs arkworks MontConfig::GENERATOR %s of %s" % (hex(g), hex(ev), ARK_CFG[f]),
                       where=get("MULTIPLICATIVE_GENERATOR")["sp"])
        def root_ok(v, raw):
            return v != 0 and pow(v, 1 << s, p) == 1 and pow(v, 1 << (s - 1), p) != 1
        w = fec("TWO_ADIC_ROOT_OF_UNITY", root_ok, "element of exact multiplicative order 2^%d" % s)
        if w is not None and g is not None:
            rep.ob(key("TWO_ADIC_ROOT_OF_UNITY=g^t", be), w == pow(g, t, p),
                   "TWO_ADIC_ROOT_OF_UNITY %s must equal MULTIPLICATIVE_GENERATOR^TRACE = %s" % (hex(w), hex(pow(g, t, p))),
                   where=get("TWO_ADIC_ROOT_OF_UNITY")["sp"])
        qt = fec("QUADRATIC_NON_RESIDUE_TO_TRACE", root_ok, "c^t for a non-residue c, i.e. exact order 2^%d" % s)
        qn = get("QUADRATIC_NON_RESIDUE")
        if qt is not None and qn is not None:
            try:
                qv = felt(qn["value"]["val"], f)[1]
                if pow(qv, t, p) != qt:
                    src = "MULTIPLICATIVE_GENERATOR^TRACE" if g is not None and pow(g, t, p) == qt else "another non-residue"
                    rep.info("%s/%s: QUADRATIC_NON_RESIDUE_TO_TRACE has the required exact order 2^%d but is %s, not QUADRATIC_NON_RESIDUE^TRACE of the "
                             "published QUADRATIC_NON_RESIDUE (both generate the 2-Sylow subgroup; only the defining order property is required)" % (f, be, s, src))
            except Exception:
                pass
        c = get("N")
        if c is not None:
            want = n64 if be == "u64" else n32
            rep.ob(key("N", be), vint(c["value"]["val"]) == want, "limb count %s, expected %d" % (c["value"]["val"]["int"], want), where=c["sp"])
    for nm, want in (("B", nbits), ("N_8", n8), ("N_32", n32), ("N_64", n64)):
        c = fc.get((f, "-", nm))
        if c is not None:
            rep.ob(key(nm, "-"), vint(c["value"]["val"]) == want, "%s = %s, recomputed %d" % (nm, c["value"]["val"]["int"], want), where=c["sp"])

    # arkworks trait constants provided by the crate (cfg A / R only)
    ac = _ark_consts(facts)
    def akey(tr, name):
        return "CONST/%s/<%s as %s>::%s" % (cfgname, f, tr, name)
    for (ff, tr, name), c in sorted(ac.items()):
        if ff != f:
            continue
        v = c["value"].get("val")
        if v is None:
            rep.ob(akey(tr, name), False, "constant could not be evaluated", where=c["sp"])
            continue
        if name in ("MODULUS", "MODULUS_MINUS_ONE_DIV_TWO", "TRACE", "TRACE_MINUS_ONE_DIV_TWO"):
            want = {"MODULUS": p, "MODULUS_MINUS_ONE_DIV_TWO": (p - 1) // 2, "TRACE": t, "TRACE_MINUS_ONE_DIV_TWO": (t - 1) // 2}[name]
            got = bigint(v)
            rep.ob(akey(tr, name), got == want, "%s = %s, recomputed from the modulus: %s" % (name, hex(got), hex(want)), where=c["sp"],
                   sample={"constant": c["path"], "evaluated": hex(got), "recomputed": hex(want)})
        elif name in ("MODULUS_BIT_SIZE", "TWO_ADICITY"):
            want = nbits if name == "MODULUS_BIT_SIZE" else s
            rep.ob(akey(tr, name), vint(v) == want, "%s = %d, recomputed %d" % (name, vint(v), want), where=c["sp"])
        elif name in ("ZERO", "ONE"):
            rep.ob(akey(tr, name), felt(v, f)[1] == (0 if name == "ZERO" else 1), "%s has canonical value %d" % (name, felt(v, f)[1]), where=c["sp"])
        elif name == "GENERATOR":
            gv = felt(v, f)[1]
            ok = gv != 0 and K.legendre(gv, p) == -1 and (g_ref is None or gv == g_ref)
            rep.ob(akey(tr, name), ok, "FftField::GENERATOR = %s must be a non-residue and equal MULTIPLICATIVE_GENERATOR (%s)" % (
                hex(gv), hex(g_ref) if g_ref is not None else "?"), where=c["sp"])
        elif name == "TWO_ADIC_ROOT_OF_UNITY":
            wv = felt(v, f)[1]
            ok = wv != 0 and pow(wv, 1 << s, p) == 1 and pow(wv, 1 << (s - 1), p) != 1 and (g_ref is None or wv == pow(g_ref, t, p))
            rep.ob(akey(tr, name), ok, "FftField::TWO_ADIC_ROOT_OF_UNITY = %s must have exact order 2^%d and equal GENERATOR^TRACE" % (hex(wv), s), where=c["sp"])
        elif name in ("SMALL_SUBGROUP_BASE", "SMALL_SUBGROUP_BASE_ADICITY", "LARGE_SUBGROUP_ROOT_OF_UNITY"):
            rep.ob(akey(tr, name), v.get("variant") == "None", "%s is %s; the crate declares no mixed-radix subgroup" % (name, v.get("variant")),
                   nontrivial=False, where=c["sp"])
        elif name == "SQRT_PRECOMP":
            ok, why = _sqrt_precomp(v, f, p, s, t)
            rep.ob(akey(tr, name), ok, why, where=c["sp"], sample={"constant": c["path"], "verdict": why})
        else:
            rep.info("unclassified arkworks constant %s (no rule)" % c["path"])


def _sqrt_precomp(v, f, p, s, t):
    if v.get("variant") != "Some":
        return False, "SQRT_PRECOMP is None: Field::sqrt would be unavailable"
    inner = v["fields"]["0"]
    var = inner.get("variant")
    fs = inner["fields"]
    if var == "TonelliShanks":
        ta = vint(fs["two_adicity"])
        qnr = felt(fs["quadratic_nonresidue_to_trace"], f)[1]
        tm = bigint(fs["trace_of_modulus_minus_one_div_two"])
        ok = ta == s and tm == (t - 1) // 2 and qnr != 0 and pow(qnr, 1 << s, p) == 1 and pow(qnr, 1 << (s - 1), p) != 1
        return ok, "TonelliShanks{two_adicity=%d (want %d), qnr_to_trace order 2^%d: %s, (t-1)/2 %s}" % (
            ta, s, s, pow(qnr, 1 << s, p) == 1 and pow(qnr, 1 << (s - 1), p) != 1, tm == (t - 1) // 2)
    if var == "Case3Mod4":
        e = bigint(fs["modulus_plus_one_div_four"])
        return (p % 4 == 3 and e == (p + 1) // 4), "Case3Mod4{(p+1)/4 = %s, recomputed %s, p mod 4 = %d}" % (hex(e), hex((p + 1) // 4), p % 4)
    return False, "unknown SqrtPrecomputation variant %s" % var


# ---- curve constants -------------------------------------------------------------------------------

def _const(facts, path_suffix):
    for c in facts["consts"]:
        if c["path"].endswith(path_suffix):
            return c
    return None


def curve_constants(rep, facts, cfgname):
    q = Q
    a, d = K.A_COEFF % q, K.D_COEFF
    amd = (a - d) % q

    def fe(suffix, name, pred, why):
        c = _const(facts, suffix)
        if c is None:
            return None
        v = felt(c["value"]["val"], "fq")[1]
        rep.ob("CONST/%s/%s" % (cfgname, name), pred(v), "%s has canonical value %s; required: %s" % (name, hex(v), why), where=c["sp"],
               sample={"constant": c["path"], "canonical_value": hex(v), "relation": why})
        return v

    rep.ob("CONST/spec/d-nonsquare", K.legendre(d, q) == -1 and K.legendre(a, q) == 1,
           "a=-1 is a square and d=3021 a non-square in Fq: the a=-1 twisted Edwards addition law is complete")
    zeta = None
    if cfgname in ("A", "R"):
        zeta = fe("ark_curve::constants::ZETA", "ark_curve::constants::ZETA", lambda v: K.legendre(v, q) == -1, "a quadratic non-residue of Fq")
        fe("TECurveConfig>::COEFF_A", "TECurveConfig::COEFF_A", lambda v: v == a, "a = -1")
        fe("TECurveConfig>::COEFF_D", "TECurveConfig::COEFF_D", lambda v: v == d, "d = 3021")
        fe("MontCurveConfig>::COEFF_A", "MontCurveConfig::COEFF_A", lambda v: v == 2 * (a + d) * pow(amd, -1, q) % q, "2(a+d)/(a-d)")
        fe("MontCurveConfig>::COEFF_B", "MontCurveConfig::COEFF_B", lambda v: v == 4 * pow(amd, -1, q) % q, "4/(a-d)")
        c = _const(facts, "Decaf377EdwardsConfig as ark_ec::CurveConfig>::COFACTOR")
        if c:
            cof = bigint(c["value"]["val"])
            rep.ob("CONST/%s/CurveConfig::COFACTOR" % cfgname, cof == 1, "COFACTOR = %d; decaf377 presents a prime-order group (cofactor 1)" % cof, where=c["sp"])
        c = _const(facts, "Decaf377EdwardsConfig as ark_ec::CurveConfig>::COFACTOR_INV")
        if c:
            v = felt(c["value"]["val"], "fr")[1]
            rep.ob("CONST/%s/CurveConfig::COFACTOR_INV" % cfgname, v == 1, "COFACTOR_INV = %s must be COFACTOR^-1 = 1 in Fr" % hex(v), where=c["sp"])
    else:
        zeta = fe("min_curve::constants::ZETA", "min_curve::constants::ZETA", lambda v: K.legendre(v, q) == -1, "a quadratic non-residue of Fq")
        fe("min_curve::constants::COEFF_A", "min_curve::constants::COEFF_A", lambda v: v == a, "a = -1")
        fe("min_curve::constants::COEFF_D", "min_curve::constants::COEFF_D", lambda v: v == d, "d = 3021")
        fe("min_curve::constants::COEFF_K", "min_curve::constants::COEFF_K", lambda v: v == 2 * d % q, "k = 2d = 6042")
        s_, t_ = K.two_adicity(q - 1)
        if zeta is not None:
            fe("min_curve::constants::ZETA_TO_TRACE", "min_curve::constants::ZETA_TO_TRACE", lambda v: v == pow(zeta, t_, q), "ZETA^trace")
        fe("elligator_map::A", "min_curve::elligator_map::A", lambda v: v == a, "a = -1")
        fe("elligator_map::D", "min_curve::elligator_map::D", lambda v: v == d, "d = 3021")
    if zeta is None:
        rep.fail_closed("ZETA constant not found in cfg %s" % cfgname)
        return

    # generator = decode(8), on the curve, T*Z = X*Y, order exactly r in the quotient group
    want = K.decaf_decode_int(K.ENC_GENERATOR, zeta)
    rep.ob("CONST/spec/decode(8)-exists", want is not None and K.te_on_curve(want), "spec decode of the integer 8 with this ZETA succeeds and lies on the curve")
    def point_of(c):
        v = c["value"]["val"]
        fs = v["fields"]
        if "inner" in fs:
            fs = fs["inner"]["fields"]
        co = {k: felt(fs[k], "fq")[1] for k in ("x", "y", "z", "t") if k in fs}
        return co
    gens = []
    for suffix in ("Element::GENERATOR", "TECurveConfig>::GENERATOR"):
        c = _const(facts, suffix)
        if c is None:
            continue
        co = point_of(c)
        z = co.get("z", 1)
        ok_z = z != 0
        x = co["x"] * pow(z, -1, q) % q if ok_z else None
        y = co["y"] * pow(z, -1, q) % q if ok_z else None
        ok = ok_z and K.te_on_curve((x, y)) and (("t" not in co) or (co["t"] * z - co["x"] * co["y"]) % q == 0)
        rep.ob("CONST/%s/%s:on-curve" % (cfgname, suffix), ok, "generator constant %s: on curve and T*Z = X*Y: %s" % (suffix, ok), where=c["sp"])
        if ok and want is not None:
            rep.ob("CONST/%s/%s=decode(8)" % (cfgname, suffix), (x, y) == want,
                   "affine generator (%s, %s) must equal the specification's decode(8) = (%s, %s)" % (hex(x), hex(y), hex(want[0]), hex(want[1])),
                   where=c["sp"], sample={"constant": c["path"], "affine": [hex(x), hex(y)], "decode(8)": [hex(want[0]), hex(want[1])]})
            gens.append((x, y))
    if cfgname in ("A", "R"):
        for nm in ("B_X", "B_Y", "B_T", "B_Z", "GENERATOR_X", "GENERATOR_Y"):
            c = _const(facts, "ark_curve::constants::" + nm)
            if c is None or want is None:
                continue
            v = felt(c["value"]["val"], "fq")[1]
            w = {"B_X": want[0], "B_Y": want[1], "B_T": want[0] * want[1] % q, "B_Z": 1, "GENERATOR_X": want[0], "GENERATOR_Y": want[1]}[nm]
            rep.ob("CONST/%s/ark_curve::constants::%s" % (cfgname, nm), v == w, "%s = %s, decode(8) gives %s" % (nm, hex(v), hex(w)), where=c["sp"])
    for suffix in ("Element::IDENTITY", "AffinePoint::IDENTITY"):
        c = _const(facts, suffix)
        if c is None:
            continue
        co = point_of(c)
        z = co.get("z", 1)
        ok = co["x"] == 0 and z != 0 and co["y"] == z and co.get("t", 0) == 0
        rep.ob("CONST/%s/%s" % (cfgname, suffix), ok, "identity constant must be (0 : 1 : 1 : 0); got %s" % {k: hex(v) for k, v in co.items()}, where=c["sp"])
    if want is not None:
        # order facts (arithmetic on constants only): r prime, 4r in the Hasse interval, [r]B in the identity coset, B not
        rB = K.te_mul(R, want)
        hasse = (q + 1 - 4 * R) ** 2 <= 4 * q
        rep.ob("CONST/spec/generator-order", K.is_prime(R) and hasse and rB[0] == 0 and want[0] != 0,
               "r prime: %s; 4r within the Hasse interval of q: %s; [r]B = %s lies in the identity coset {(0,1),(0,-1)}: %s; B itself does not" % (
                   K.is_prime(R), hasse, (hex(rB[0]), hex(rB[1])), rB[0] == 0),
               sample={"obligation": "[r]B in identity coset", "rB": [hex(rB[0]), hex(rB[1])]})
    return zeta


def run(rep, facts, tier):
    rep.explanation = (
        "CONST rule: every constant of crate decaf377 is const-evaluated by rustc (driver dumps the value tree), "
        "Montgomery form is undone, and the value is compared with the defining relation recomputed in Python from "
        "the specification anchors (BLS12-377 parameter x, a=-1, d=3021, group order r) - never with a stored copy. "
        "Second oracle: arkworks' own MontConfig constants const-evaluated from the dependency by the same driver. "
        "Lazy statics are evaluated by constant-folding their initialiser terms.")
    rep.rules += ["CONST"]
    rep.trusted += ["rustc const evaluator", "python integer arithmetic", "Miller-Rabin with 20 fixed bases on 253/251/377-bit inputs"]
    rep.assumptions += ["MULTIPLICATIVE_GENERATOR is checked against the prime factors of p-1 below 2^20 (plus a prime cofactor when there is one) and against arkworks' derived generator; the full factorisation of p-1 is not attempted"]
    n_consts = 0
    for cfgname, f in facts.items():
        n_consts += len(f["consts"])
        for fld in ("fq", "fr", "fp"):
            check_field(rep, f, cfgname, fld)
        curve_constants(rep, f, cfgname)
        from . import statics
        statics.check_statics(rep, f, cfgname)
    if "A" in facts:
        # src/ark_curve/bls12_377.rs is among C17's anchors: the tower / curve constants of the pairing engine
        from . import c16
        c16.engine_parameters(rep, facts["A"])
    rep.analysed["constants_evaluated"] = n_consts
    rep.analysed["cfgs"] = sorted(facts.keys())
    rep.extra["exhaustive"] = True
    rep.floor("constants_evaluated", n_consts, 151 + 66)
    rep.floor("obligations", len(rep.obligations), 150)
