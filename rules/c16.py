"""C16 — the crate's BLS12-377 engine equals the reference engine.

`Bls12_377 = Bls12<Config>` is arkworks' generic pairing code; two instantiations of one generic
program are the same object iff their parameters are.  CONST rule: every associated constant of the
crate's configs is (a) recomputed from first principles and (b) compared with the corresponding
constant of ark_bls12_377, both const-evaluated by the same driver.  Method overrides are compared
through a table with reasons.
"""
import re
from . import consts as K
from .consts import P, Q, felt, bigint, vint, Fp2, PrimeF

PAIRS = [  # (trait suffix, local self type, reference self type)
    ("Fp2Config", "ark_curve::bls12_377::F2Config", "ark_bls12_377::Fq2Config"),
    ("Fp6Config", "ark_curve::bls12_377::F6Config", "ark_bls12_377::Fq6Config"),
    ("Fp12Config", "ark_curve::bls12_377::F12Config", "ark_bls12_377::Fq12Config"),
    ("CurveConfig", "ark_curve::bls12_377::OurG1Config", "ark_bls12_377::g1::Config"),
    ("SWCurveConfig", "ark_curve::bls12_377::OurG1Config", "ark_bls12_377::g1::Config"),
    ("CurveConfig", "ark_curve::bls12_377::OurG2Config", "ark_bls12_377::g2::Config"),
    ("SWCurveConfig", "ark_curve::bls12_377::OurG2Config", "ark_bls12_377::g2::Config"),
    ("Bls12Config", "ark_curve::bls12_377::Config", "ark_bls12_377::Config"),
]

# fn overrides present in the reference impl but not in the crate's (or vice versa) with the reason they are neutral
OVERRIDE_TABLE = {
    ("Fp2Config", "mul_fp_by_nonresidue_in_place"): "fast path for multiplication by NONRESIDUE = -5; same function as the default (generic multiply by NONRESIDUE)",
    ("Fp2Config", "mul_fp_by_nonresidue_and_add"): "fast path of the default `y + NONRESIDUE*x`",
    ("Fp2Config", "mul_fp_by_nonresidue_plus_one_and_add"): "fast path of the default `y + (NONRESIDUE+1)*x`",
    ("Fp2Config", "sub_and_mul_fp_by_nonresidue"): "fast path of the default `y - NONRESIDUE*x`",
    ("Fp6Config", "mul_fp2_by_nonresidue_in_place"): "fast path: NONRESIDUE = u, (c0,c1)*u = (beta*c1, c0); same function as the default multiply",
    ("SWCurveConfig", "mul_by_a"): "a = 0: returns zero, same as the default `elem * COEFF_A`",
    ("SWCurveConfig", "clear_cofactor"): "endomorphism-based clearing returns a different multiple of the same coset; not among the observables of C16 (generators, serialisation, scalar multiplication, pairing)",
    ("SWCurveConfig", "is_in_correct_subgroup_assuming_on_curve"): "faster subgroup test with the same truth value as the default [r]P = 0 test",
}


def _get(facts, selfty, trait):
    out = {}
    fns = None
    for t in facts["trait_consts"]:
        if t["self"] == selfty and t["trait"].split("::")[-1] == trait:
            if t["name"] == "<fn-overrides>":
                fns = t["fns"]
            else:
                out[t["name"]] = t
    return out, fns


def canon(v):
    """canonical (backend independent) form of a constant value tree: ints, lists, field elements as ints"""
    if isinstance(v, dict):
        if "int" in v:
            return int(v["int"])
        ty = v.get("ty", "")
        if v.get("adt") in ("ark_ff::QuadExtField", "ark_ff::CubicExtField"):
            return tuple(canon(v["fields"][k]) for k in sorted(v["fields"]))
        if K.field_of_type(ty) and (v.get("adt", "").startswith("fields::") or v.get("adt") == "ark_ff::Fp"):
            return felt(v)[1]
        if "arr" in v:
            return [canon(x) for x in v["arr"]]
        if "tup" in v:
            return tuple(canon(x) for x in v["tup"])
        if "fields" in v:
            d = {k: canon(x) for k, x in v["fields"].items() if "PhantomData" not in str(x.get("ty", "")) or x.get("fields")}
            if "variant" in v:
                return (v["variant"], d)
            return d
        if "str" in v:
            return v["str"]
    return v


def first_principles(rep, lc):
    """lc: {(trait, selfty): {name: canonical value}} for the crate's own configs"""
    p = P
    beta = lc[("Fp2Config", "ark_curve::bls12_377::F2Config")].get("NONRESIDUE")
    rep.ob("CONST/F2Config::NONRESIDUE", beta is not None and K.legendre(beta, p) == -1,
           "Fp2 non-residue %s must be a quadratic non-residue of Fp (BLS12-377 uses -5)" % (hex(beta) if beta is not None else None))
    rep.ob("CONST/F2Config::NONRESIDUE=-5", beta == p - 5, "Fp2 NONRESIDUE is -5 in the BLS12-377 tower; got %s" % hex(beta))
    F2 = Fp2(p, beta)
    c = lc[("Fp2Config", "ark_curve::bls12_377::F2Config")].get("FROBENIUS_COEFF_FP2_C1")
    want = [pow(beta, (p ** i - 1) // 2, p) for i in range(2)]
    rep.ob("CONST/F2Config::FROBENIUS_COEFF_FP2_C1", c == want, "Frobenius coefficients beta^((p^i-1)/2), i=0,1: got %s want %s" % (c, want),
           sample={"constant": "FROBENIUS_COEFF_FP2_C1", "recomputed": [hex(x) for x in want]})
    xi = lc[("Fp6Config", "ark_curve::bls12_377::F6Config")].get("NONRESIDUE")
    rep.ob("CONST/F6Config::NONRESIDUE", xi == (0, 1), "Fp6 non-residue xi = u (0 + 1*u); got %s" % (xi,))
    # xi must be neither a square nor a cube in Fp2 (so that the tower is a field)
    n2 = p * p - 1
    rep.ob("CONST/F6Config::NONRESIDUE:non-cube-non-square", F2.pow(xi, n2 // 3) != (1, 0) and F2.pow(xi, n2 // 2) != (1, 0),
           "xi^((p^2-1)/3) != 1 and xi^((p^2-1)/2) != 1")
    for name, expo, n in (("FROBENIUS_COEFF_FP6_C1", lambda i: (p ** i - 1) // 3, 6),
                          ("FROBENIUS_COEFF_FP6_C2", lambda i: (2 * p ** i - 2) // 3, 6)):
        c = lc[("Fp6Config", "ark_curve::bls12_377::F6Config")].get(name)
        want = [F2.pow(xi, expo(i)) for i in range(n)]
        ok = c is not None and [tuple(x) for x in c] == want
        rep.ob("CONST/F6Config::" + name, ok, "%s[i] = xi^(%s): %s" % (name, "(p^i-1)/3" if "C1" in name else "(2p^i-2)/3", "all %d equal" % n if ok else "MISMATCH got %s" % (c,)),
               sample={"constant": name, "entries": n, "recomputed[1]": [hex(x) for x in want[1]]})
        if c is not None and not ok:
            for i, (a, b) in enumerate(zip(c, want)):
                if tuple(a) != b:
                    rep.ob("CONST/F6Config::%s[%d]" % (name, i), False, "entry %d is %s, recomputed %s" % (i, a, b))
    c = lc[("Fp12Config", "ark_curve::bls12_377::F12Config")].get("FROBENIUS_COEFF_FP12_C1")
    want = [F2.pow(xi, (p ** i - 1) // 6) for i in range(12)]
    ok = c is not None and [tuple(x) for x in c] == want
    rep.ob("CONST/F12Config::FROBENIUS_COEFF_FP12_C1", ok, "FROBENIUS_COEFF_FP12_C1[i] = xi^((p^i-1)/6), 12 entries: %s" % ("all equal" if ok else "MISMATCH"),
           sample={"constant": "FROBENIUS_COEFF_FP12_C1", "entries": 12})
    if c is not None and not ok:
        for i, (a, b) in enumerate(zip(c, want)):
            if tuple(a) != b:
                rep.ob("CONST/F12Config::FROBENIUS_COEFF_FP12_C1[%d]" % i, False, "entry %d is %s, recomputed %s" % (i, a, b))
    n12 = lc[("Fp12Config", "ark_curve::bls12_377::F12Config")].get("NONRESIDUE")
    rep.ob("CONST/F12Config::NONRESIDUE", n12 == ((0, 0), (1, 0), (0, 0)), "Fp12 non-residue v = (0, 1, 0) in Fp6; got %s" % (n12,))

    # --- BLS parameter relations
    cfg = lc[("Bls12Config", "ark_curve::bls12_377::Config")]
    x = K.limbs_to_int(cfg.get("X"), 64) if cfg.get("X") is not None else None
    rep.ob("CONST/Config::X", x == K.X_BLS and Q == x ** 4 - x ** 2 + 1 and P == (x - 1) ** 2 * Q // 3 + x and K.is_prime(P) and K.is_prime(Q),
           "X = %s; r = x^4-x^2+1 and p = (x-1)^2 r/3 + x reproduce the two moduli and both are prime" % (hex(x) if x else None))
    rep.ob("CONST/Config::X_IS_NEGATIVE", cfg.get("X_IS_NEGATIVE") == 0, "X_IS_NEGATIVE = %s (x is positive)" % cfg.get("X_IS_NEGATIVE"), nontrivial=False)
    tw = cfg.get("TWIST_TYPE")
    rep.ob("CONST/Config::TWIST_TYPE", isinstance(tw, tuple) and tw[0] == "D", "TWIST_TYPE = %s; G2 lives on the D-twist y^2 = x^3 + b/xi" % (tw,))

    # --- G1
    g1 = lc[("SWCurveConfig", "ark_curve::bls12_377::OurG1Config")]
    g1c = lc[("CurveConfig", "ark_curve::bls12_377::OurG1Config")]
    a1, b1, gen1 = g1.get("COEFF_A"), g1.get("COEFF_B"), g1.get("GENERATOR")
    rep.ob("CONST/OurG1Config::COEFF_A,B", a1 == 0 and b1 == 1, "G1: y^2 = x^3 + 1 (a=%s, b=%s)" % (a1, b1))
    F1 = PrimeF(p)
    t = x + 1  # trace of Frobenius for BLS12
    n1 = p + 1 - t
    h1 = n1 // Q
    rep.ob("CONST/spec/G1-order", n1 % Q == 0 and h1 == (x - 1) ** 2 // 3, "#E(Fp) = p + 1 - (x+1) = h1 * r with h1 = (x-1)^2/3")
    if gen1:
        gx, gy = gen1["x"], gen1["y"]
        on = (gy * gy - gx ** 3 - 1) % p == 0
        inf = gen1.get("infinity") == 0
        tors = on and K.sw_mul(F1, Q, (gx, gy), 0) is None
        rep.ob("CONST/OurG1Config::GENERATOR", on and inf and tors, "G1 generator on y^2=x^3+1: %s, not flagged infinity: %s, [r]G = O: %s" % (on, inf, tors),
               sample={"constant": "OurG1Config::GENERATOR", "x": hex(gx), "on_curve": on, "r_torsion": tors})
    cof1 = K.limbs_to_int(g1c.get("COFACTOR"), 64)
    rep.ob("CONST/OurG1Config::COFACTOR", cof1 == h1, "G1 COFACTOR = %s, recomputed #E(Fp)/r = %s" % (hex(cof1), hex(h1)))
    ci = g1c.get("COFACTOR_INV")
    rep.ob("CONST/OurG1Config::COFACTOR_INV", ci is not None and ci * h1 % Q == 1, "COFACTOR_INV * COFACTOR = 1 mod r: %s" % (ci is not None and ci * h1 % Q == 1))

    # --- G2 (D-twist: y^2 = x^3 + b/xi over Fp2)
    g2 = lc[("SWCurveConfig", "ark_curve::bls12_377::OurG2Config")]
    g2c = lc[("CurveConfig", "ark_curve::bls12_377::OurG2Config")]
    a2, b2, gen2 = g2.get("COEFF_A"), g2.get("COEFF_B"), g2.get("GENERATOR")
    bt = F2.mul((1, 0), F2.inv(xi))
    rep.ob("CONST/OurG2Config::COEFF_A", a2 is not None and tuple(a2) == (0, 0), "G2 a = 0; got %s" % (a2,))
    rep.ob("CONST/OurG2Config::COEFF_B", b2 is not None and tuple(b2) == bt, "G2 b' = b/xi = %s; got %s" % (bt, b2),
           sample={"constant": "OurG2Config::COEFF_B", "recomputed": [hex(bt[0]), hex(bt[1])]})
    # order of the twist: #E'(Fp2) = p^2 + 1 - (t2 -/+ 3 f2)/2 ... choose the candidate divisible by r
    t2 = t * t - 2 * p
    # f2 from t2^2 - 4p^2 = -3 f2^2
    import math
    f2sq = (4 * p * p - t2 * t2) // 3
    f2 = math.isqrt(f2sq)
    cands = [p * p + 1 - (t2 + 3 * f2) // 2, p * p + 1 - (t2 - 3 * f2) // 2] if f2 * f2 == f2sq else []
    n2c = [c for c in cands if c % Q == 0]
    rep.ob("CONST/spec/G2-order", len(n2c) == 1, "exactly one sextic-twist order candidate is divisible by r (f2 integral: %s)" % (f2 * f2 == f2sq))
    if n2c:
        h2 = n2c[0] // Q
        cof2 = K.limbs_to_int(g2c.get("COFACTOR"), 64)
        rep.ob("CONST/OurG2Config::COFACTOR", cof2 == h2, "G2 COFACTOR = %s..., recomputed #E'(Fp2)/r = %s..." % (hex(cof2)[:24], hex(h2)[:24]))
        ci = g2c.get("COFACTOR_INV")
        rep.ob("CONST/OurG2Config::COFACTOR_INV", ci is not None and ci * h2 % Q == 1, "COFACTOR_INV * COFACTOR = 1 mod r: %s" % (ci is not None and ci * h2 % Q == 1))
    if gen2:
        gx, gy = tuple(gen2["x"]), tuple(gen2["y"])
        lhs = F2.sq(gy)
        rhs = F2.add(F2.mul(F2.sq(gx), gx), bt)
        on = lhs == rhs
        tors = on and K.sw_mul(F2, Q, (gx, gy), (0, 0)) is None
        rep.ob("CONST/OurG2Config::GENERATOR", on and gen2.get("infinity") == 0 and tors,
               "G2 generator on the twist: %s, [r]G = O: %s" % (on, tors),
               sample={"constant": "OurG2Config::GENERATOR", "on_twist": on, "r_torsion": tors})


def engine_parameters(rep, f):
    """the REF / first-principles / override obligations on the pairing-engine parameters (also used by C17)"""
    return _params(rep, f)


def run(rep, facts, tier):
    f = facts["A"]
    rep.explanation = (
        "CONST rule on the parameters of the generic pairing engine: every associated constant of the crate's Fp2/Fp6/Fp12, G1, G2 and "
        "Bls12 configs is const-evaluated by rustc and (a) recomputed from first principles in Python (Frobenius coefficients as powers of the "
        "non-residue, curve equations, r-torsion of the generators by scalar multiplication on the constants, cofactors from the CM order "
        "formulas, x from the BLS12 polynomial family) and (b) compared, as canonical integers, with the same constant of ark_bls12_377 "
        "const-evaluated from the dependency by the same driver.  Associated types (fields) are compared by name; method overrides through a table.")
    rep.rules += ["CONST(first principles)", "CONST(vs ark_bls12_377)", "OVERRIDE-TABLE"]
    rep.trusted += ["rustc const evaluator", "arkworks generic Bls12/Fp12 code (shared by both instantiations)", "python integer arithmetic"]
    rep.assumptions += ["bilinearity and non-degeneracy are theorems about the generic engine, inherited once the parameters coincide (not re-proved)",
                        "the crate's Fp and Fq are the right prime fields (C10/C11/C17)"]
    n = _params(rep, f)
    # canonical field parsing used by point (de)serialisation: from_bigint rejects repr >= p (same rule as C02/C11)
    from . import c02
    from .curve import Cfg
    c02.from_bigint_rule(rep, Cfg(f))
    rep.analysed["constants_compared"] = n
    rep.floor("constants_compared", n, 21)
    # the engine is instantiated over the crate's own Fp: the field-layer rules of C10 (operators reach the right primitive on their own
    # operands, identities, exponentiation, inversion, selection) and of C11 (reduction, ordering, flags, limb/byte layout, serialisation)
    # restricted to Fp are necessary conditions of "byte-identical to the reference" (the y-sign flag of compressed points is Fp's Ord).
    from . import c10, c11
    from .common import Report
    nfp = 0
    for mod, tag in ((c10, "C10"), (c11, "C11")):
        sub = Report(rep.pid, tier)
        mod.run(sub, {"A": f}, tier)
        viol = {k: (m, w) for k, m, w in sub.violations}
        for k, ok, nt in sub.obligations:
            if not re.search(r"(^|[/:<& ])fp(::|/| as |$)|fields::fp::", k):
                continue
            nfp += 1
            m, w = viol.get(k, ("holds", None))
            rep.ob("FP/%s/%s" % (tag, k), ok, m, nontrivial=nt, where=w)
        for u in sub.unmodelled:
            if "fp" in u:
                rep.unmodelled.append(u)
    rep.rules += ["FP-LAYER (rules FWD/IDENT/EXP/INV/SELECT of C10 and RED/CONV/ORD/FLAGS/LIMBS/PRIM/STR of C11, instances on Fp)"]
    rep.floor("fp_layer_obligations", nfp, 85)
    rep.extra["exhaustive"] = True


def _params(rep, f):
    lc = {}
    n = 0
    for trait, ls, rs in PAIRS:
        lv, lf = _get(f, ls, trait)
        rv, rf = _get(f, rs, trait)
        if not lv:
            rep.fail_closed("no constants found for <%s as %s>" % (ls, trait))
            continue
        if not rv:
            rep.fail_closed("reference constants not found for <%s as %s>" % (rs, trait))
            continue
        lcan = {}
        for name, t in sorted(lv.items()):
            v = t.get("value", {}).get("val")
            if v is None:
                rep.ob("CONST/%s::%s:evaluable" % (ls.split("::")[-1], name), False, "constant could not be evaluated: %s" % str(t)[:200])
                continue
            cl = canon(v)
            lcan[name] = cl
            n += 1
            r = rv.get(name)
            if r is None or r.get("value", {}).get("val") is None:
                rep.info("no reference constant for %s::%s" % (rs, name))
                continue
            cr = canon(r["value"]["val"])
            same = cl == cr
            rep.ob("REF/%s::%s" % (ls.split("::")[-1], name), same,
                   "<%s as %s>::%s must equal <%s>::%s as canonical integers; %s" % (ls, trait, name, rs, name,
                        "equal" if same else "crate: %s\nreference: %s" % (str(cl)[:600], str(cr)[:600])),
                   sample={"constant": "<%s as %s>::%s" % (ls, trait, name), "equals_reference": same})
        lc[(trait, ls)] = lcan
        # overrides
        lf, rf = set(lf or []), set(rf or [])
        for fn in sorted(lf ^ rf):
            why = OVERRIDE_TABLE.get((trait, fn))
            rep.ob("OVERRIDE/%s::%s" % (ls.split("::")[-1], fn), why is not None,
                   "method %s is overridden in %s only; %s" % (fn, "the crate" if fn in lf else "the reference",
                        why or "not in the table of semantically neutral differences - read it and add it with a reason, or align the impls"),
                   nontrivial=False)
    try:
        first_principles(rep, lc)
    except KeyError as e:
        rep.fail_closed("missing constant group %r" % (e,))
    return n
