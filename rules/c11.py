"""C11 — field-element encodings and conversions are canonical and consistent (conversion glue; primitives assumed).

All conversions are compositions of a few primitives (from_raw_bytes, to_bytes_le, to_le_limbs, from_le_limbs) with
hand-written glue; the glue is interpreted (primitives and arithmetic abstract) and each routine's term must have the
specified shape, for Fq, Fr, Fp in the 64-bit and the 32-bit build.
"""
import re
from . import terms as Tm, consts as K
from .terms import mk, lit, field, TRUE, FALSE, variant
from . import curve as C
from .curve import Cfg
from .common import norm_path
from . import c02, c10, poly as P
from .summaries import felem

FIELDS = ("fq", "fr", "fp")
LIMBS64 = {"fq": 4, "fr": 4, "fp": 6}


def wty(cfg, f):
    return "fields::%s::%s::wrapper::F%s" % (f, "u64" if cfg.name in ("A", "R") else "u32", f[1])


def n8(f):
    return (K.MODULI[f].bit_length() + 7) // 8


def find1(rep, cfg, what, rx):
    ps = cfg.find(lambda x: re.match(rx, x) is not None)
    if len(ps) != 1:
        rep.fail_closed("anchor %s: expected one body matching %s in cfg %s, found %d" % (what, rx, cfg.name, len(ps)))
        return None
    return ps[0]


def reduction_shape(v, f, bytes_t):
    """(ok, reason) for  FOLD(rev(map(chunks(bytes, N8), pad-high + from_raw_bytes)), 0, acc*C + x)"""
    N8 = n8(f)
    p = K.MODULI[f]
    if not (v.op == "proj" and v.args[0].op == "fold"):
        return False, "not a fold over the chunks: %s" % Tm.show(v, maxdepth=4)
    it, item, accs, inits, nexts = v.args[0].args
    forward = it.op != "rev"
    if forward and len(accs) != 2:
        return False, "chunks must be folded from the most significant one (missing .rev()), or from the least significant one with a running power of 2^%d: iterator %s" % (8 * n8(f), Tm.show(it, maxdepth=3))
    m = it if forward else it.args[0]

    def padded(ch):
        return mk("from_le_bytes_mod_order", f, mk("store", mk("repeat", lit(0), N8), mk("struct", "core::ops::RangeTo", ("end",), mk("len", ch)), ch))
    if m.op == "seq_map_t":
        # chunks.map(pad + reduce).rev().fold(..): the folded item is the reduced chunk
        ch_item, body, src = m.args
        if src.op == "rchunks" and bytes_t.op == "rev" and src.args[0] is bytes_t.args[0] and src.args[1] is lit(N8):
            # chunk i counted from the end of the big-endian input, reversed, is chunk i of the reversed (little-endian) input
            rv = mk("from_le_bytes_mod_order", f, mk("store", mk("repeat", lit(0), N8), mk("struct", "core::ops::RangeTo", ("end",), mk("len", ch_item)), mk("rev", ch_item)))
            if body is not rv:
                return False, "each chunk taken from the end of the big-endian input must be reversed into the low end of a zeroed %d-byte buffer and reduced; got %s" % (N8, Tm.show(body, maxdepth=6))
            src = mk("chunks", bytes_t, lit(N8))
        elif body is not padded(ch_item):
            return False, "each chunk must be zero-padded on the high side to %d bytes (padded[..x.len()] = x) and reduced; got %s" % (N8, Tm.show(body, maxdepth=6))
        x_term = item
    else:
        # for chunk in chunks.rev() { acc = acc*C + reduce(pad(chunk)) }: the folded item is the raw chunk
        src = m
        x_term = padded(item)
    init_ok = None
    if not forward and src.op == "chunks_exact" and src.args[0] is bytes_t and src.args[1] is lit(N8) and len(accs) == 1:
        # chunks(N8) == chunks_exact(N8) followed by the remainder when that is non-empty; the remainder is the most significant
        # chunk, so it may seed the accumulator (an empty remainder pads to 0, so testing for emptiness is optional)
        rem = mk("chunks_rem", bytes_t, lit(N8))
        seeds = (padded(rem), Tm.ite(Tm.eq(mk("len", rem), lit(0)), felem(f, 0), padded(rem)))
        if not any(inits[0] is s_ for s_ in seeds):
            return False, "with chunks_exact the accumulator must be seeded with the zero-padded, reduced remainder (the most significant chunk); got %s" % Tm.show(inits[0], maxdepth=5)
        init_ok = True
        # a full chunk copied into an N8-byte buffer is the chunk itself
        full = mk("from_le_bytes_mod_order", f, item)
        if m.op != "seq_map_t":
            x_alt = full
        else:
            x_alt = None
        src = mk("chunks", bytes_t, lit(N8))
    else:
        x_alt = None
    if not (src.op == "chunks" and src.args[0] is bytes_t and src.args[1] is lit(N8)):
        return False, "input must be split into chunks of N_8 = %d bytes of the given byte string; got %s" % (N8, Tm.show(src, maxdepth=4))
    N = P.Norm(p)
    Cc = pow(2, 8 * N8, p)
    if forward:
        # sum_i x_i * C^i evaluated from the least significant chunk: state (acc, shift) = (0, 1), acc += x * shift, shift *= C
        ia = v.args[1]
        if ia not in (0, 1) or inits[ia] is not felem(f, 0) or inits[1 - ia] is not felem(f, 1):
            return False, "forward evaluation must start at (acc, power) = (0, 1) and return acc; inits %s" % [Tm.show(x) for x in inits]
        acc, sh = accs[ia], accs[1 - ia]
        if N.pkey(N.poly(nexts[1 - ia])) != N.pkey(N.poly(mk("mul", sh, felem(f, Cc)))):
            return False, "the running power must be multiplied by 2^%d mod p = %s per chunk; got %s" % (8 * N8, hex(Cc), Tm.show(nexts[1 - ia], maxdepth=5))
        if N.pkey(N.poly(nexts[ia])) != N.pkey(N.poly(mk("add", acc, mk("mul", x_term, sh)))):
            return False, "step must be acc + x * power (x = the zero-padded, reduced chunk); got %s" % Tm.show(nexts[ia], maxdepth=5)
        return True, "sum of chunk_i * (2^%d)^i from the least significant %d-byte chunk with a running power" % (8 * N8, N8)
    if len(accs) != 1 or not (init_ok or inits[0] is felem(f, 0)):
        return False, "accumulator must start at 0"
    want = mk("add", mk("mul", accs[0], felem(f, Cc)), x_term)
    wants = [want] + ([mk("add", mk("mul", accs[0], felem(f, Cc)), x_alt)] if x_alt is not None else [])
    if all(N.pkey(N.poly(nexts[0])) != N.pkey(N.poly(w_)) for w_ in wants):
        return False, "step must be acc * 2^(8*N_8) + x (x = the zero-padded, reduced chunk) with the constant 2^%d mod p = %s; got %s" % (8 * N8, hex(Cc), Tm.show(nexts[0], maxdepth=5))
    return True, "Horner from the most significant %d-byte chunk with multiplier 2^%d mod p" % (N8, 8 * N8)


def conversions(rep, cfg):
    is64 = cfg.name in ("A", "R")
    for f in FIELDS:
        W = wty(cfg, f)
        B = mk("param", "bytes")
        # --- reduction of byte strings of any length
        p = find1(rep, cfg, "from_le_bytes_mod_order(%s)" % f, r"^fields::%s::<impl %s>::from_le_bytes_mod_order$" % (f, re.escape(W)))
        if p:
            out = cfg.run(p, mode="glue")
            ok, why = reduction_shape(out.value, f, B)
            rep.ob("RED/%s/%s::from_le_bytes_mod_order" % (cfg.name, f), ok and not out.unmodelled, why, where=cfg.where(p),
                   sample={"obligation": "RED/%s/%s::from_le_bytes_mod_order" % (cfg.name, f), "verdict": why})
        if is64:
            p = find1(rep, cfg, "from_be_bytes_mod_order(%s)" % f, r"^fields::%s::arkworks::<impl ark_ff::PrimeField for .*>::from_be_bytes_mod_order$" % f)
            if p:
                out = cfg.run(p, mode="glue")
                ok, why = reduction_shape(out.value, f, mk("rev", B))
                rep.ob("RED/%s/%s::from_be_bytes_mod_order" % (cfg.name, f), ok and not out.unmodelled, "big-endian reduction = reverse the bytes, then the LE reduction: " + why, where=cfg.where(p))
            p = find1(rep, cfg, "PrimeField::from_le_bytes_mod_order(%s)" % f, r"^fields::%s::arkworks::<impl ark_ff::PrimeField for .*>::from_le_bytes_mod_order$" % f)
            if p:
                out = cfg.run(p, mode="glue")
                ok, why = reduction_shape(out.value, f, B)
                rep.ob("RED/%s/%s::PrimeField::from_le_bytes_mod_order" % (cfg.name, f), ok, "trait form must be the inherent reduction: " + why, where=cfg.where(p), nontrivial=False)
            p = find1(rep, cfg, "into_bigint(%s)" % f, r"^fields::%s::arkworks::<impl ark_ff::PrimeField for .*>::into_bigint$" % f)
            if p:
                out = cfg.run(p, mode="glue")
                want = mk("struct", "ark_ff::BigInt", ("0",), mk("canon_limbs", mk("param", "self")))
                rep.ob("CONV/%s/%s::into_bigint" % (cfg.name, f), out.value is want, "into_bigint must be BigInt(to_le_limbs()); got %s" % Tm.show(out.value, maxdepth=4), where=cfg.where(p))
        # --- checked parse
        p = find1(rep, cfg, "from_bytes_checked(%s)" % f, r"^fields::%s::<impl %s>::from_bytes_checked$" % (f, re.escape(W)))
        if p:
            out = cfg.run(p, mode="glue")
            X = mk("from_le_bytes_mod_order", f, B)
            want = Tm.ite(Tm.eq(mk("canon_bytes", X), B), variant("Ok", X), variant("Err", variant("InvalidEncoding")))
            rep.ob("CONV/%s/%s::from_bytes_checked" % (cfg.name, f), out.value is want and not out.unmodelled,
                   "checked parse must be: reduce, re-serialise, accept iff equal to the input (and return the reduced value); got %s" % Tm.show(out.value, maxdepth=6), where=cfg.where(p),
                   sample={"obligation": "CONV/%s/%s::from_bytes_checked" % (cfg.name, f), "term": Tm.show(out.value, maxdepth=4)})
        p = find1(rep, cfg, "to_bytes(%s)" % f, r"^fields::%s::<impl %s>::to_bytes$" % (f, re.escape(W)))
        if p:
            out = cfg.run(p, mode="glue")
            rep.ob("CONV/%s/%s::to_bytes" % (cfg.name, f), out.value is mk("canon_bytes", mk("param", "self")), "to_bytes must be to_bytes_le", where=cfg.where(p), nontrivial=False)
        # --- integers
        p = find1(rep, cfg, "From<u128>(%s)" % f, r"^fields::%s::ops::<impl core::convert::From<u128> for %s>::from$" % (f, re.escape(W)))
        if p:
            out = cfg.run(p, mode="glue")
            o = mk("param", "other")
            arr = [mk("cast", "u64", o), mk("cast", "u64", Tm.intop("shr", o, lit(64)))] + [lit(0)] * (LIMBS64[f] - 2)
            want = mk("from_le_limbs", f, mk("array", *arr))
            rep.ob("CONV/%s/%s::From<u128>" % (cfg.name, f), out.value is want, "From<u128> must pack [lo, hi, 0, ...] (%d limbs) into from_le_limbs; got %s" % (LIMBS64[f], Tm.show(out.value, maxdepth=5)), where=cfg.where(p))
        for it in ("u64", "u32", "u16", "u8", "bool"):
            p = find1(rep, cfg, "From<%s>(%s)" % (it, f), r"^fields::%s::ops::<impl core::convert::From<%s> for %s>::from$" % (f, it, re.escape(W)))
            if p:
                out = cfg.run(p, mode="glue")
                o = mk("param", "other")
                lo = o if it != "bool" else Tm.ite(o, lit(1), lit(0))
                cands = [mk("from_le_limbs", f, mk("array", *([mk("cast", "u64", x), mk("cast", "u64", Tm.intop("shr", x, lit(64)))] + [lit(0)] * (LIMBS64[f] - 2)))) for x in (o, lo)]
                rep.ob("CONV/%s/%s::From<%s>" % (cfg.name, f, it), any(out.value is w for w in cands), "From<%s> must widen to u128 and use the u128 conversion; got %s" % (it, Tm.show(out.value, maxdepth=5)),
                       where=cfg.where(p), nontrivial=False)
        # --- ordering and hashing
        def ms_first_chain(t, n):
            """the limb pairs a three-way comparison looks at, most significant first, with each later pair consulted only when
            all earlier pairs are equal: lexicographic comparison of the reversed arrays, or the explicit chain (in either scan
            direction - `if l != r { ord = l.cmp(r) }` from the least significant limb up builds the same nest)"""
            if t.op == "lex_cmp":
                a, b = t.args
                if a.op == "rev" and b.op == "rev":
                    return [(Tm.index(a.args[0], lit(n - 1 - k)), Tm.index(b.args[0], lit(n - 1 - k))) for k in range(n)]
                if a.op == "array" and b.op == "array" and len(a.args) == len(b.args):
                    return list(zip(a.args, b.args))
                return None
            out_ = []
            for _ in range(n + 1):
                if t is variant("Equal"):
                    return out_
                if t.op == "icmp":
                    return out_ + [(t.args[0], t.args[1])]
                if t.op == "ite" and t.args[2].op == "icmp":
                    c, rest, leaf = t.args
                    l, r = leaf.args
                    if c is Tm.eq(l, r) or c is Tm.eq(r, l) or c is Tm.eq(leaf, variant("Equal")) or c is Tm.is_variant(leaf, "Equal"):
                        out_.append((l, r))
                        t = rest
                        continue
                if t.op == "ite" and t.args[1].op == "icmp":
                    c, leaf, rest = t.args
                    l, r = leaf.args
                    if c is Tm.not_(Tm.eq(l, r)) or c is Tm.not_(Tm.eq(r, l)) or c is Tm.not_(Tm.eq(leaf, variant("Equal"))) or c is Tm.not_(Tm.is_variant(leaf, "Equal")):
                        out_.append((l, r))
                        t = rest
                        continue
                return None
            return None

        def want_chain(n):
            S_, O_ = mk("param", "self"), mk("param", "other")
            return [(Tm.index(mk("canon_limbs", S_), lit(n - 1 - k)), Tm.index(mk("canon_limbs", O_), lit(n - 1 - k))) for k in range(n)]
        p = find1(rep, cfg, "Ord(%s)" % f, r"^fields::%s::ops::<impl core::cmp::Ord for %s>::cmp$" % (f, re.escape(W)))
        if p:
            out = cfg.run(p, mode="glue")
            S_, O_ = mk("param", "self"), mk("param", "other")
            want = mk("lex_cmp", mk("rev", mk("canon_limbs", S_)), mk("rev", mk("canon_limbs", O_)))
            rep.ob("ORD/%s/%s::cmp" % (cfg.name, f), out.value is want or (ms_first_chain(out.value, LIMBS64[f]) == want_chain(LIMBS64[f]) and not out.unmodelled),
                   "ordering must compare the canonical limbs most-significant first (reverse both, then lexicographic): got %s" % Tm.show(out.value, maxdepth=5), where=cfg.where(p),
                   sample={"obligation": "ORD/%s/%s::cmp" % (cfg.name, f), "term": Tm.show(out.value, maxdepth=4)})
        p = find1(rep, cfg, "PartialOrd(%s)" % f, r"^fields::%s::ops::<impl core::cmp::PartialOrd for %s>::partial_cmp$" % (f, re.escape(W)))
        if p:
            out = cfg.run(p, mode="glue")
            S_, O_ = mk("param", "self"), mk("param", "other")
            want = variant("Some", mk("lex_cmp", mk("rev", mk("canon_limbs", S_)), mk("rev", mk("canon_limbs", O_))))
            inner_ = out.value.args[1] if out.value.op == "variant" and out.value.args[0] == "Some" and len(out.value.args) == 2 else mk("bottom")
            rep.ob("ORD/%s/%s::partial_cmp" % (cfg.name, f), out.value is want or (ms_first_chain(inner_, LIMBS64[f]) == want_chain(LIMBS64[f]) and not out.unmodelled), "partial_cmp must be Some(cmp); got %s" % Tm.show(out.value, maxdepth=5), where=cfg.where(p), nontrivial=False)
        p = find1(rep, cfg, "Hash(%s)" % f, r"^fields::%s::ops::<impl core::hash::Hash for %s>::hash$" % (f, re.escape(W)))
        if p:
            out = cfg.run(p, mode="glue")
            ws = [a for pc, kind, args, site in out.effects if kind == "hash_write" for a in args]
            rep.ob("HASH/%s/%s::hash" % (cfg.name, f), ws == [mk("canon_bytes", mk("param", "self"))], "Hash must write exactly the canonical bytes (consistent with Eq); writes: %s" % [Tm.show(w, maxdepth=4) for w in ws], where=cfg.where(p))


def strings(rep, cfg):
    """decimal FromStr (Horner base 10, rejects non-digits) and Display (prints the canonical integer)"""
    if cfg.name not in ("A", "R"):
        return
    for f in FIELDS:
        p = find1(rep, cfg, "FromStr(%s)" % f, r"^fields::%s::arkworks::<impl core::str::FromStr for .*>::from_str$" % f)
        if p:
            out = cfg.run(p, mode="glue")
            flows = out.flows
            ok = False
            why = "flows: %s" % [Tm.show(v, maxdepth=3) for pc, v in flows]
            oks = [v for pc, v in flows if v.op == "variant" and v.args[0] == "Ok"]
            errs = [(pc, v) for pc, v in flows if v.op == "variant" and v.args[0] == "Err"]
            if len(oks) == 1 and oks[0].args[1].op == "proj" and oks[0].args[1].args[0].op == "fold":
                it, item, accs, inits, nexts = oks[0].args[1].args[0].args
                dig_opt = mk("call", "core::char::methods::<impl char>::to_digit", item, lit(10))
                dig = Tm.payload(dig_opt, "Some", 0)
                arr = [mk("cast", "u64", dig), mk("cast", "u64", Tm.intop("shr", dig, lit(64)))] + [lit(0)] * (LIMBS64[f] - 2)
                D = mk("from_le_limbs", f, mk("array", *arr))
                N = P.Norm(K.MODULI[f])
                want = mk("add", mk("mul", felem(f, 10), accs[0]), D)
                src_ok = it.op == "call" and it.args[0].endswith("::chars") and it.args[1] is mk("param", "s")
                step_ok = N.pkey(N.poly(nexts[0])) == N.pkey(N.poly(want))
                rej_ok = len(errs) == 1 and errs[0][0] and errs[0][0][-1] is Tm.is_variant(dig_opt, "None")
                ok = src_ok and inits[0] is felem(f, 0) and step_ok and rej_ok
                why = "iterates the characters of the input: %s; starts at 0: %s; step acc*10 + digit (radix 10 in both places): %s; a non-digit is the only rejection: %s" % (
                    src_ok, inits[0] is felem(f, 0), step_ok, rej_ok)
            if not ok and out.value.op == "try_fold_t":
                # the same evaluation written as `chars().try_fold(0, |acc, c| digit(c).map(|d| 10*acc + d).ok_or(()))`
                it, item, acc, init, step = out.value.args
                dig_opt = mk("call", "core::char::methods::<impl char>::to_digit", item, lit(10))
                dig = Tm.payload(dig_opt, "Some", 0)
                arr = [mk("cast", "u64", dig), mk("cast", "u64", Tm.intop("shr", dig, lit(64)))] + [lit(0)] * (LIMBS64[f] - 2)
                D = mk("from_le_limbs", f, mk("array", *arr))
                N = P.Norm(K.MODULI[f])
                src_ok = it.op == "call" and it.args[0].endswith("::chars") and it.args[1] is mk("param", "s")
                c_some = Tm.is_variant(dig_opt, "Some")
                shape = step.op == "ite" and step.args[0] is c_some and step.args[1].op == "variant" and step.args[1].args[0] == "Ok" \
                    and step.args[2].op == "variant" and step.args[2].args[0] == "Err"
                step_ok = shape and N.pkey(N.poly(step.args[1].args[1])) == N.pkey(N.poly(mk("add", mk("mul", felem(f, 10), acc), D)))
                ok = src_ok and init is felem(f, 0) and step_ok
                why = "try_fold form - iterates the characters of the input: %s; starts at 0: %s; step Ok(acc*10 + digit) / Err on a non-digit: %s" % (src_ok, init is felem(f, 0), step_ok)
            rep.ob("STR/%s/%s::from_str" % (cfg.name, f), ok, "FromStr must be decimal Horner evaluation rejecting non-digits: " + why, where=cfg.where(p))
        p = find1(rep, cfg, "Display(%s)" % f, r"^fields::%s::arkworks::<impl core::fmt::Display for .*>::fmt$" % f)
        if p:
            out = cfg.run(p, mode="glue")
            S_ = mk("param", "self")
            shown = mk("call", "<T as ark_std::string::ToString>::to_string", mk("struct", "ark_ff::BigInt", ("0",), mk("canon_limbs", S_)))
            fm = [a for pc, kind, args, site in out.effects if kind == "fmt" for a in args if isinstance(a, Tm.T)]
            uses = any(Tm.contains(a, lambda t: t is shown) for a in fm)
            raw = any(Tm.contains(a, lambda t: t is S_ and False) for a in fm)
            other = [t for a in fm for t in Tm.subterms(a) if t.op == "field" and Tm.contains(t, lambda u: u is S_)]
            rep.ob("STR/%s/%s::Display" % (cfg.name, f), uses and not other, "Display must print the decimal form of the canonical integer (into_bigint), never raw limbs; prints canonical integer: %s; raw accesses: %d" % (uses, len(other)),
                   where=cfg.where(p), nontrivial=False)


def stream_serialisation(rep, cfg):
    """flagged (de)serialisation, probed through the EmptyFlags instantiation (deserialize_with_mode / serialize_with_mode)"""
    if cfg.name not in ("A", "R"):
        return
    for f in FIELDS:
        p = find1(rep, cfg, "deserialize_with_mode(%s)" % f, r"^fields::%s::arkworks::<impl ark_serialize::CanonicalDeserialize for .*>::deserialize_with_mode$" % f)
        if p:
            out = cfg.run(p, mode="glue")
            flows = C.expand_flows(out.flows)
            N8 = n8(f)
            oks = [(pc, v) for pc, v in flows if v.op == "variant" and v.args[0] == "Ok"]
            errs = [(pc, v) for pc, v in flows if v.op == "variant" and v.args[0] == "Err"]
            good = False
            why = "flows: %s" % [([Tm.show(c, maxdepth=4) for c in pc], Tm.show(v, maxdepth=3)) for pc, v in flows][:4]
            if len(oks) == 1:
                v = oks[0][1].args[1]
                if v.op == "from_le_limbs" and v.args[1].op == "le_u64_limbs":
                    rd = v.args[1].args[0]
                    src_ok = rd.op == "read_bytes" and rd.args[0] is mk("param", "reader")
                    ges = [u for c in oks[0][0] for u in Tm.subterms(c) if u.op in ("ge", "gt", "le", "lt")]
                    mod_ok = len(ges) == 1 and ges[0].op == "ge" and ges[0].args[0] is mk("struct", "ark_ff::BigInt", ("0",), v.args[1]) and \
                        c02.modulus_of_bigint_const(ges[0].args[1]) == K.MODULI[f]
                    inv = any("InvalidData" in Tm.show(e.args[1], maxdepth=6) for pc, e in errs)
                    good = src_ok and mod_ok and inv
                    why = "reads %d bytes from the reader: %s; little-endian 8-byte limbs of those bytes; rejects iff limbs >= p (constant = p: %s) with InvalidData: %s" % (N8, src_ok, mod_ok, inv)
            rep.ob("STREAM/%s/%s::deserialize" % (cfg.name, f), good and not out.unmodelled, "stream deserialisation (no flags) must read exactly (bits+7)/8 bytes, take LE limbs and apply the canonical check: " + why,
                   where=cfg.where(p), sample={"obligation": "STREAM/%s/%s::deserialize" % (cfg.name, f), "verdict": why})
        p = find1(rep, cfg, "serialize_with_mode(%s)" % f, r"^fields::%s::arkworks::<impl ark_serialize::CanonicalSerialize for .*>::serialize_with_mode$" % f)
        if p:
            out = cfg.run(p, mode="glue")
            ws = [a for pc, kind, args, site in out.effects if kind == "write_all" for a in args]
            cb = mk("canon_bytes", mk("param", "self"))
            N8 = n8(f)
            okw = len(ws) == 1 and (ws[0] is cb or (ws[0].op == "store" and ws[0].args[0] is cb and ws[0].args[2] is Tm.intop("bor", Tm.index(cb, lit(N8 - 1)), lit(0))) or
                                    (ws[0].op == "store" and ws[0].args[0] is cb and ws[0].args[2] is Tm.index(cb, lit(N8 - 1))))
            rep.ob("STREAM/%s/%s::serialize" % (cfg.name, f), okw, "serialisation without flags must write exactly the canonical bytes (flag mask 0 OR-ed into the last byte); writes: %s" % [Tm.show(w, maxdepth=5) for w in ws],
                   where=cfg.where(p))
        # expected_len / buffer integer facts for the standard flag types
        bits = K.MODULI[f].bit_length()
        buf = (bits + 7) // 8
        worst = max((bits + fb + 7) // 8 for fb in (0, 1, 2))
        rep.ob("STREAM/%s/%s::flag-room" % (cfg.name, f), worst <= buf, "(MODULUS_BIT_SIZE + F::BIT_SIZE + 7)/8 stays within the (MODULUS_BIT_SIZE+7)/8-byte buffer for EmptyFlags/TEFlags/SWFlags: %d <= %d" % (worst, buf), nontrivial=False)


def flagged(rep, cfg):
    """generic-F flagged (de)serialisation: one size formula shared by writer and reader; flags live in / leave the last byte"""
    if cfg.name not in ("A", "R"):
        return
    for f in FIELDS:
        bits = K.MODULI[f].bit_length()
        N8 = n8(f)
        size = Tm.intop("idiv", Tm.intop("iadd", Tm.intop("iadd", lit(bits), mk("flags_bit_size", "F")), lit(7)), lit(8))
        S_ = mk("param", "self")
        p = find1(rep, cfg, "serialized_size_with_flags(%s)" % f, r"^fields::%s::arkworks::<impl ark_serialize::CanonicalSerializeWithFlags for .*>::serialized_size_with_flags$" % f)
        if p:
            out = cfg.run(p, mode="glue")
            rep.ob("FLAGS/%s/%s::size" % (cfg.name, f), out.value is size, "serialized_size_with_flags must be (MODULUS_BIT_SIZE + F::BIT_SIZE + 7)/8 = %s; got %s" % (Tm.show(size), Tm.show(out.value, maxdepth=6)),
                   where=cfg.where(p), sample={"obligation": "FLAGS/%s/%s::size" % (cfg.name, f), "term": Tm.show(out.value, maxdepth=6)})
        p = find1(rep, cfg, "serialize_with_flags(%s)" % f, r"^fields::%s::arkworks::<impl ark_serialize::CanonicalSerializeWithFlags for .*>::serialize_with_flags$" % f)
        if p:
            out = cfg.run(p, mode="glue")
            cb = mk("canon_bytes", S_)
            mask = mk("call", "ark_serialize::Flags::u8_bitmask", mk("param", "flags"))
            fits = Tm.eq(lit(N8), size)
            ws = [(pc, args[0]) for pc, kind, args, site in out.effects if kind == "write_all"]
            def writes_when(truth):
                # the sequence of writes in the case fits == truth, whatever `if` structure they sit in
                seq = []
                for pc, w in ws:
                    conds = [Tm.assume(c_, fits, truth) for c_ in pc]
                    if any(c_ is FALSE for c_ in conds):
                        continue
                    seq.append(Tm.assume(w, fits, truth))
                return seq
            in_last = writes_when(True)
            extra = writes_when(False)
            ok_fit = in_last == [Tm.store(cb, lit(N8 - 1), Tm.intop("bor", Tm.index(cb, lit(N8 - 1)), mask))]
            ok_extra = extra == [cb, mk("array", mask)]
            rej = [pc for pc, v in out.flows if v is variant("Err", variant("NotEnoughSpace"))]
            ok_rej = rej == [(Tm.cmp("gt", mk("flags_bit_size", "F"), lit(8)),)]
            rep.ob("FLAGS/%s/%s::serialize" % (cfg.name, f), ok_fit and ok_extra and ok_rej,
                   "flagged serialisation: flags wider than a byte rejected: %s; when (bits + flag bits) still fit in %d bytes the mask is OR-ed into the LAST byte of the canonical bytes: %s; "
                   "otherwise canonical bytes then one extra byte with the mask: %s (the two cases are told apart by the shared size formula)" % (ok_rej, N8, ok_fit, ok_extra), where=cfg.where(p))
        p = find1(rep, cfg, "deserialize_with_flags(%s)" % f, r"^fields::%s::arkworks::<impl ark_serialize::CanonicalDeserializeWithFlags for .*>::deserialize_with_flags$" % f)
        if p:
            out = cfg.run(p, mode="glue")
            oks = [(pc, v.args[1]) for pc, v in C.expand_flows(out.flows) if v.op == "variant" and v.args[0] == "Ok"]
            ok = False
            why = "no unique success flow"
            if len(oks) == 1 and oks[0][1].op == "tuple" and len(oks[0][1].args) == 2:
                val, flg = oks[0][1].args
                buf = mk("store", mk("repeat", lit(0), N8), mk("struct", "core::ops::RangeTo", ("end",), size), mk("read_bytes", mk("param", "reader"), None)) if False else None
                # locate the pieces structurally
                rts = [t for t in Tm.subterms(val) if t.op == "struct" and t.args[0] == "core::ops::RangeTo"]
                len_ok = bool(rts) and all(dict(zip(t.args[1], t.args[2:])).get("end") is size for t in rts)
                rem = [t for t in Tm.subterms(val) if t.op == "call" and t.args[0].endswith("from_u8_remove_flags")]
                last_ok = bool(rem) and all(t.args[1].op == "index" and t.args[1].args[1] is lit(N8 - 1) for t in rem)
                # limbs are read from the buffer after the flag byte was rewritten by from_u8_remove_flags
                after_ok = val.op == "from_le_limbs" and val.args[1].op == "le_u64_limbs" and val.args[1].args[0].op == "store" and val.args[1].args[0].args[1] is lit(N8 - 1) \
                    and val.args[1].args[0].args[2].op == "out"
                flg_ok = flg.op == "payload" and flg.args[0] in rem
                ges = [u for c in oks[0][0] for u in Tm.subterms(c) if u.op in ("ge", "gt", "le", "lt")]
                canon_ok = len(ges) == 1 and ges[0].op == "ge" and c02.modulus_of_bigint_const(ges[0].args[1]) == K.MODULI[f]
                ok = len_ok and last_ok and after_ok and flg_ok and canon_ok
                why = "reads the shared size formula's number of bytes: %s; flags taken from the last byte (index %d): %s; limbs read after the flag bits were removed: %s; returned flags are the removed ones: %s; canonical check >= p: %s" % (
                    len_ok, N8 - 1, last_ok, after_ok, flg_ok, canon_ok)
            rep.ob("FLAGS/%s/%s::deserialize" % (cfg.name, f), ok, "flagged deserialisation: " + why, where=cfg.where(p))


def limb_glue(rep, cfg):
    """the wrappers' own limb plumbing (bit-vector shape)"""
    is64 = cfg.name in ("A", "R")
    for f in FIELDS:
        W = wty(cfg, f)
        n64 = LIMBS64[f]
        L = mk("param", "limbs")
        if not is64:
            def split(arr):
                if arr.op != "array" or len(arr.args) != 2 * n64:
                    return False
                for i in range(n64):
                    li = Tm.index(L, lit(i))
                    lo, hi = arr.args[2 * i], arr.args[2 * i + 1]
                    lo_ok = lo is mk("cast", "u32", li) or (lo.op == "cast" and lo.args[0] == "u32" and lo.args[1].op == "band" and lo.args[1].args[0] is li and
                                                           Tm.is_lit(lo.args[1].args[1]) and lo.args[1].args[1].args[0] & 0xFFFFFFFF == 0xFFFFFFFF)
                    hi_ok = hi is mk("cast", "u32", Tm.intop("shr", li, lit(32)))
                    if not (lo_ok and hi_ok):
                        return False
                return True
            p = W + "::from_montgomery_limbs"
            if p in cfg.prog.bodies:
                out = cfg.run(p, mode="deep")
                v = out.value
                arr = field(field(v, "0"), "0") if v.op == "struct" else mk("bottom")
                rep.ob("LIMBS/%s/%s::from_montgomery_limbs" % (cfg.name, f), split(arr),
                       "each u64 Montgomery limb i must be split into u32 limbs (2i, 2i+1) = (low, high) for all %d limbs; got %s" % (n64, Tm.show(arr, maxdepth=4)), where=cfg.where(p),
                       sample={"obligation": "LIMBS/%s/%s::from_montgomery_limbs" % (cfg.name, f), "limbs": n64})
            else:
                rep.fail_closed("%s not found" % p)
            p = W + "::from_le_limbs"
            if p in cfg.prog.bodies:
                out = cfg.run(p, mode="deep")
                v = out.value
                raw = field(field(v, "0"), "0") if v.op == "struct" else mk("bottom")
                okk = raw.op == "mont" and raw.args[0].op == "of_canon_limbs32" and split(raw.args[0].args[0])
                rep.ob("LIMBS/%s/%s::from_le_limbs" % (cfg.name, f), okk, "from_le_limbs must split the canonical u64 limbs into u32 (low, high) pairs and convert to Montgomery form; got %s" % Tm.show(raw, maxdepth=5), where=cfg.where(p))
            p = W + "::to_le_limbs"
            if p in cfg.prog.bodies:
                out = cfg.run(p, mode="deep")
                v = out.value
                Cn = mk("canon32", mk("unmont", field(field(mk("param", "self"), "0"), "0")))
                okk = v.op == "array" and len(v.args) == n64 and all(
                    v.args[i] is Tm.intop("bor", mk("cast", "u64", Tm.index(Cn, lit(2 * i))), Tm.intop("shl", mk("cast", "u64", Tm.index(Cn, lit(2 * i + 1))), lit(32))) for i in range(n64))
                rep.ob("LIMBS/%s/%s::to_le_limbs" % (cfg.name, f), okk, "to_le_limbs must recombine canonical u32 limbs (2i, 2i+1) into u64 limb i = lo | hi << 32; got %s" % Tm.show(v, maxdepth=5), where=cfg.where(p))
        else:
            p = W + "::to_le_limbs"
            if p in cfg.prog.bodies:
                out = cfg.run(p, mode="deep")
                v = out.value
                Bt = mk("canon_bytes", field(mk("param", "self"), "0"))
                okk = v is mk("le_u64_limbs", Bt) and LIMBS64[f] * 8 == n8(f)
                rep.ob("LIMBS/%s/%s::to_le_limbs" % (cfg.name, f), okk, "to_le_limbs must read limb i from canonical bytes 8i..8i+8 little-endian; got %s" % Tm.show(v, maxdepth=4), where=cfg.where(p))
            p = W + "::from_le_limbs"
            if p in cfg.prog.bodies:
                out = cfg.run(p, mode="deep")
                v = out.value
                inner = field(v, "0") if v.op == "struct" else mk("bottom")
                if inner.op == "from_le_bytes_mod_order":
                    inner = mk("from_le_bytes_mod_order", inner.args[0], Tm.norm_range_stores(inner.args[1]))
                want = mk("from_le_bytes_mod_order", f, mk("le_bytes_of_u64_limbs", L, n64))
                rep.ob("LIMBS/%s/%s::from_le_limbs" % (cfg.name, f), inner is want, "from_le_limbs must lay limb i out little-endian at bytes 8i..8i+8 and reduce; got %s" % Tm.show(inner, maxdepth=4), where=cfg.where(p))


def wrapper_primitives(rep, cfg):
    """the two byte primitives of each wrapper, interpreted down to the backend (arkworks serialiser / fiat from_montgomery+to_bytes)"""
    is64 = cfg.name in ("A", "R")
    for f in FIELDS:
        W = wty(cfg, f)
        S_ = mk("param", "self")
        p = W + "::to_bytes_le"
        if p in cfg.prog.bodies:
            out = cfg.run(p, mode="deep")
            want = mk("canon_bytes", field(S_, "0")) if is64 else mk("canon_bytes", mk("unmont", field(field(S_, "0"), "0")))
            rep.ob("PRIM/%s/%s::to_bytes_le" % (cfg.name, f), out.value is want and not out.unmodelled,
                   "to_bytes_le must serialise the canonical (non-Montgomery) value of self: expected %s, got %s" % (Tm.show(want), Tm.show(out.value, maxdepth=5)), where=cfg.where(p))
        else:
            rep.fail_closed("%s not found" % p)
        p = W + "::from_raw_bytes"
        if p in cfg.prog.bodies:
            out = cfg.run(p, mode="deep")
            red = mk("from_le_bytes_mod_order", f, mk("param", "bytes"))
            got = c10.den(out.value)
            rep.ob("PRIM/%s/%s::from_raw_bytes" % (cfg.name, f), got is red and not out.unmodelled,
                   "from_raw_bytes must be the little-endian reduction of exactly the given bytes (brought into Montgomery form by the backend); got %s" % Tm.show(out.value, maxdepth=5), where=cfg.where(p))
        else:
            rep.fail_closed("%s not found" % p)


def bigint_conversions(rep, cfg):
    """From<BigUint> / From<BigInt<N>> reduce the integer's little-endian bytes; From<F> for BigUint / BigInt<N> is the canonical integer"""
    if cfg.name not in ("A", "R"):
        return
    for f in FIELDS:
        for p in sorted(cfg.prog.bodies):
            m = re.match(r"^fields::%s::arkworks::<impl core::convert::From<(.+?)> for (.+)>::from$" % f, p)
            if not m:
                continue
            src, dst = m.group(1), m.group(2)
            b = cfg.prog.bodies[p]
            arg = mk("param", b["params"][0].get("name", "p0"))
            out = cfg.run(p, mode="glue")
            key = "BIGCONV/%s/%s::From<%s> for %s" % (cfg.name, f, src.split("::")[-1], dst.split("::")[-1])
            unm = [u for u in out.unmodelled if "BigUint::to_bytes_le" not in u]
            if "wrapper::" in dst and ("BigUint" in src or "BigInt" in src):
                by = mk("call", "num_bigint::BigUint::to_bytes_le", arg) if "BigUint" in src else mk("bigint_le_bytes", arg)
                ok, why = reduction_shape(out.value, f, by)
                rep.ob(key, ok and not unm, "integer -> field must reduce the integer's little-endian bytes: " + why, where=cfg.where(p))
            elif "wrapper::" in src and "BigInt" in dst:
                want = mk("struct", "ark_ff::BigInt", ("0",), mk("canon_limbs", arg))
                rep.ob(key, out.value is want and not unm, "field -> BigInt must be into_bigint (canonical limbs); got %s" % Tm.show(out.value, maxdepth=4), where=cfg.where(p))
            elif "wrapper::" in src and "BigUint" in dst:
                v = out.value
                ok = v.op == "convert" and "BigUint" in str(v.args[1]) and v.args[2] is mk("struct", "ark_ff::BigInt", ("0",), mk("canon_limbs", arg))
                rep.ob(key, ok and not unm, "field -> BigUint must convert the canonical integer (into_bigint); got %s" % Tm.show(v, maxdepth=4), where=cfg.where(p))


def run(rep, facts, tier):
    rep.explanation = (
        "The hand-written conversion glue of the three fields is interpreted with arithmetic and the wrapper primitives abstract ('glue' mode) and each "
        "routine's term must have its specified shape: chunked Horner reduction with the right chunk width, padding side, direction and the constant "
        "2^(8 N_8) mod p; checked parse = reduce/re-serialise/compare; from_bigint rejects iff >= p (constant evaluated); stream (de)serialisation reads "
        "LE limbs and applies the same check; Ord compares canonical limbs most-significant first; Hash writes canonical bytes; integer conversions pack "
        "limbs; the wrappers' u32/u64 limb plumbing has the right bit-vector shape. That from_raw_bytes itself reduces modulo p is assumed.")
    rep.rules += ["RED", "CONV", "CANON", "STREAM", "ORD", "HASH", "LIMBS", "STR", "PRIM", "FLAGS"]
    rep.trusted += ["arkworks from_le_bytes_mod_order / fiat from_bytes+to_montgomery reduce modulo p (x*R^2 < p*R for every x < R; an arithmetic, not a shape fact)", "summary table"]
    rep.assumptions += ["BigInt's own decimal ToString and char::to_digit are trusted"]
    for name, f in facts.items():
        if name == "R":
            continue
        cfg = Cfg(f)
        conversions(rep, cfg)
        strings(rep, cfg)
        stream_serialisation(rep, cfg)
        flagged(rep, cfg)
        limb_glue(rep, cfg)
        wrapper_primitives(rep, cfg)
        bigint_conversions(rep, cfg)
        if name == "A":
            c02.from_bigint_rule(rep, cfg)
    from . import c17
    for name, f in facts.items():
        if name != "R":
            for fld in FIELDS:
                pass
    rep.floor("obligations", len(rep.obligations), 90)
