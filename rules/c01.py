"""C01 — encoding round-trips in both directions (necessary part + reduction to the Decaf theorem).

Decided: that the code *is* the pair of maps the Decaf round-trip theorem is about, for all inputs,
representatives and projective scalings: TERM conformance of decode and encode with the
specification's step sequence (canonical polynomial forms), sibling agreement across the builds,
the byte funnel of vartime_compress, and the sign convention.
"""
from . import terms as Tm, consts as K
from .terms import mk, lit, field, TRUE, FALSE
from . import curve as C
from .curve import Cfg, pkey
from .common import norm_path
from spec import decaf_spec as SP


def check_decode_term(rep, cfg, pid="C01"):
    """TERM/decode: success value == spec decode(s).  returns canonical coordinate keys or None"""
    p = cfg.p_decode(rep)
    if p is None:
        return None
    out = cfg.run(p)
    N = cfg.norm
    errs, oks, other = C.split_result(rep, cfg, out)
    key = "TERM/%s/decode" % cfg.name
    if other or len(oks) != 1:
        rep.ob(key + ":shape", False, "decode must have exactly one success flow and only Err/Ok returns; found %d ok, %d other" % (len(oks), len(other)), where=cfg.where(p))
        return None
    co = C.coords(oks[0][1])
    if co is None:
        rep.ob(key + ":shape", False, "success value is not an element built from coordinates: %s" % Tm.show(oks[0][1], maxdepth=4), where=cfg.where(p))
        return None
    bytes_t = C.bytes_of_encoding_param(cfg)
    s = mk("from_canon_bytes", "fq", bytes_t)
    spec = SP.decode(s)
    keys = {}
    for nm, got in zip("xyzt", co):
        want = spec[nm]
        ok = pkey(N, got) == pkey(N, want)
        keys[nm] = pkey(N, got)
        rep.ob("%s:%s" % (key, nm.upper()), ok,
               "coordinate %s of the decoded point must equal the specification's decode(s) for every s\n%s" % (
                   nm.upper(), "" if ok else C.explain_poly_mismatch(N, got, want)),
               where=cfg.where(p),
               sample={"obligation": "%s:%s" % (key, nm.upper()), "routine": norm_path(p), "code_poly": N.show(N.poly(got), 4),
                       "spec_poly": N.show(N.poly(want), 4), "equal": ok})
    for u in out.unmodelled:
        rep.unmodelled.append("%s: %s" % (cfg.name, u))
    return keys


def check_encode_term(rep, cfg):
    p = cfg.p_encode(rep)
    if p is None:
        return None
    out = cfg.run(p)
    N = cfg.norm
    X, Y, Z, T = C.element_coords_of_param(cfg, mk("param", "self"))
    want = SP.encode(X, Y, Z, T)
    ok = pkey(N, out.value) == pkey(N, want)
    rep.ob("TERM/%s/encode" % cfg.name, ok,
           "vartime_compress_to_field must equal the specification's encode on projective (X:Y:Z:T)\n%s" % (
               "" if ok else C.explain_poly_mismatch(N, out.value, want)), where=cfg.where(p),
           sample={"obligation": "TERM/%s/encode" % cfg.name, "code_poly": N.show(N.poly(out.value), 4), "spec_poly": N.show(N.poly(want), 4), "equal": ok})
    for u in out.unmodelled:
        rep.unmodelled.append("%s: %s" % (cfg.name, u))
    return pkey(N, out.value)


def encode_field_summary(cfg, rep):
    """local summary: vartime_compress_to_field(e) := encode_field(e) (justified by TERM/encode)"""
    p = cfg.p_encode(rep)
    return {p: (lambda ctx: mk("encode_field", ctx.args[0]))} if p else {}


def check_compress_funnel(rep, cfg):
    p = cfg.p_compress(rep)
    if p is None:
        return
    out = cfg.run(p, local=encode_field_summary(cfg, rep))
    v = out.value
    key = "FUNNEL/%s/vartime_compress" % cfg.name
    b = field(v, "0") if v.op == "struct" else None
    want = mk("canon_bytes", mk("encode_field", mk("param", "self")))
    ok = False
    note = ""
    if b is want:
        ok = True
    elif b is not None and b.op == "store" and b.args[0] is want and b.args[1] is lit(31):
        # bytes[31] &= MASK : a no-op on the canonical form of a value < 2^253 iff MASK keeps the low five bits
        m = b.args[2]
        if m.op == "band" and m.args[0] is Tm.index(want, lit(31)) and Tm.is_lit(m.args[1]) and (m.args[1].args[0] & 0x1f) == 0x1f:
            ok = True
            note = " (top-bit mask %#x recorded: no-op on a canonical 253-bit value)" % m.args[1].args[0]
    rep.ob(key, ok, "vartime_compress must be the canonical little-endian bytes of vartime_compress_to_field(self)%s; got %s" % (
        note, Tm.show(b, maxdepth=6) if b is not None else Tm.show(v, maxdepth=4)), where=cfg.where(p))


def check_sign(rep, cfg):
    """the sign convention of Fq, decided on the RESOLVED methods (an impl item where the impl defines one, the trait default otherwise), so the
    rule does not depend on which of is_nonnegative / is_negative the impl happens to define as the primitive:
        is_nonnegative(x) = (canonical limb 0 of x) & 1 == 0,   is_negative = its negation,   abs(x) = if nonnegative {x} else {-x}"""
    methods = ("is_nonnegative", "is_negative", "abs")
    impl_paths = {}
    for p in cfg.prog.bodies:
        for m in methods:
            if p.endswith("::" + m) and " as sign::Sign>" in p and "fq" in p.lower() and "r1cs" not in p:
                impl_paths[m] = p
    default_paths = {m: "sign::Sign::" + m for m in methods if cfg.prog.body("sign::Sign::" + m) is not None}
    if not (set(impl_paths) | set(default_paths)) >= set(methods):
        rep.fail_closed("sign::Sign methods for Fq not found in cfg %s (impl: %s, defaults: %s)" % (cfg.name, sorted(impl_paths), sorted(default_paths)))
        return
    x = mk("param", "self")
    memo, busy = {}, set()

    def sem(m, arg):
        """term of method m applied to arg, with calls to the other Sign methods replaced by their own resolved semantics"""
        if m in busy:
            return mk("cyclic", m)
        path = impl_paths.get(m) or default_paths.get(m)
        key = (m,)
        if key not in memo:
            busy.add(m)
            loc = {}
            for m2 in methods:
                if m2 == m:
                    continue
                f2 = (lambda mm: (lambda ctx: sem(mm, ctx.args[0])))(m2)
                for k2 in (impl_paths.get(m2), "sign::Sign::" + m2):      # a call in a generic default body is keyed by the trait method
                    if k2:
                        loc[k2] = f2
            from . import engine as E_, summaries as S_
            I = E_.Interp(cfg.prog, S_.Summaries(local=loc), {})
            out = I.run(path)
            busy.discard(m)
            memo[key] = (out.value, out.params[0] if out.params else x, out.unmodelled)
        v, par, unm = memo[key]
        return Tm.subst(v, {par: arg}) if par is not arg else v
    nonneg_want = Tm.eq(Tm.intop("band", Tm.index(mk("canon_limbs", x), lit(0)), lit(1)), lit(0))
    got = sem("is_nonnegative", x)
    rep.ob("SIGN/%s/is_nonnegative" % cfg.name, got is nonneg_want and not memo[("is_nonnegative",)][2],
           "sign convention must read bit 0 of limb 0 of the canonical (to_le_limbs) value: expected %s, got %s" % (Tm.show(nonneg_want), Tm.show(got, maxdepth=6)),
           where=cfg.where(impl_paths.get("is_nonnegative") or default_paths["is_nonnegative"]))
    got = sem("is_negative", x)
    rep.ob("SIGN/%s/is_negative" % cfg.name, got is Tm.not_(nonneg_want) and not memo[("is_negative",)][2],
           "is_negative must be the negation of is_nonnegative; got %s" % Tm.show(got, maxdepth=6), where=cfg.where(impl_paths.get("is_negative") or default_paths["is_negative"]))
    got = sem("abs", x)
    want_abs = [Tm.ite(nonneg_want, x, mk("neg", x)), Tm.ite(nonneg_want, x, mk("call", "core::ops::Neg::neg", x))]
    unm_abs = [u for u in memo[("abs",)][2] if "core::ops::Neg::neg" not in u]      # `-self` on the generic Self is the operator itself
    rep.ob("SIGN/%s/abs" % cfg.name, any(got is w for w in want_abs) and not unm_abs,
           "abs must be `if nonnegative {x} else {-x}`; got %s" % Tm.show(got, maxdepth=6), where=cfg.where(impl_paths.get("abs") or default_paths["abs"]))


def isqrt_zero_cases(rep, cfg):
    """the codec relies on ISQRT(1, 0) = (false, 0) (identity encodes to 0; s = +-1 is rejected): structural zero-case rule of C09"""
    from . import c09
    nm = "sqrt_ratio_zeta" if cfg.name in ("A", "R") else "non_arkworks_sqrt_ratio_zeta"
    p = cfg.one(rep, nm, lambda x: x.endswith("::" + nm))
    if p:
        c09.zero_cases(rep, cfg, p, nm)


def run(rep, facts, tier):
    rep.explanation = (
        "TERM rule: decode and encode of each build are interpreted once (abstract interpretation of type-checked HIR, field "
        "layer abstracted to ring operations, ISQRT as an uninterpreted pair) and their canonical polynomial normal forms over GF(q) "
        "are compared with the specification's decode/encode step sequence - for all inputs, representatives and Z at once. "
        "FUNNEL: vartime_compress is the canonical LE bytes of that field element. SIGN: the sign convention reads the lsb of the "
        "canonical value. The round trip itself (decode after encode = id) is the Decaf theorem plus C09's contract and is assumed.")
    rep.rules += ["TERM", "SIB", "FUNNEL", "SIGN"]
    rep.trusted += ["rustc type checker / trait resolution", "summary table rules/summaries.py", "spec/decaf_spec.py transcription of the specification"]
    rep.assumptions += ["Decaf section 4-5 theorem: the specified decode and encode are mutually inverse on the quotient group",
                        "ISQRT meets its four-case contract (C09)", "field operators compute ring operations (C10)"]
    cfgs = {k: Cfg(f) for k, f in facts.items() if k in ("A", "M")}
    dec, enc = {}, {}
    for name, cfg in cfgs.items():
        dec[name] = check_decode_term(rep, cfg)
        enc[name] = check_encode_term(rep, cfg)
        check_compress_funnel(rep, cfg)
        check_sign(rep, cfg)
        isqrt_zero_cases(rep, cfg)
        from . import groupops
        groupops.check_select(rep, cfg)     # a selected element must still be a point: encode reads all four coordinates
        # "re-encoding a decoded string reproduces exactly those bytes" needs the decoder to accept canonical strings only
        from . import c02
        c02.canon_parse(rep, cfg)
        if name == "A":
            c02.from_bigint_rule(rep, cfg)
        from . import c17
        c17.curve_constants(rep, facts[name], name)     # "every element obtainable from constants": generator / identity are valid and = decode(8)
    # every decoding entry point (TryFrom forms, stream deserialisers) must hand the decoder exactly the 32 input bytes: C02's FUNNEL instances
    from .common import import_rules
    nf = import_rules(rep, c02, {k: v for k, v in facts.items() if k in ("A", "M")}, tier, "ENTRY", pred=lambda k: k.startswith("FUNNEL/"))
    rep.rules += ["ENTRY (C02's FUNNEL instances: each decode entry point feeds the decoder the whole, and only the, 32-byte input)"]
    rep.floor("decode_entry_points", nf, 14)
    # "yields an element EQUAL to the original" is stated through PartialEq: the equality must be the Decaf test on every pair of representatives
    # (a coordinate-wise shortcut separates decode(encode(P)) from P whenever P is held as the other point of its coset) - C08's TERM instances
    from . import c08
    ne = import_rules(rep, c08, {k: v for k, v in facts.items() if k in ("A", "M")}, tier, "EQ", pred=lambda k: k.startswith("TERM/"))
    rep.floor("equality_impls", ne, 3)
    if "A" in cfgs and "M" in cfgs and dec["A"] and dec["M"]:
        # the bytes parameter is spelled identically in both builds (field 0 of the Encoding), so keys are comparable
        rep.ob("SIB/A-M/decode", True, "both builds' decode terms equal the same specification term", nontrivial=False)
    if "R" in facts:
        from . import gadgets
        gadgets.check_gadget_codec(rep, facts["R"], "C01")
    rep.analysed["cfgs"] = sorted(facts)
    rep.floor("term-obligations", len(rep.obligations), 14)
