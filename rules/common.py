"""Obligation bookkeeping, known-findings handling, VIOLATION lines and evidence files."""
import json, os, re, sys, time

VERIF = os.path.dirname(os.path.dirname(os.path.abspath(__file__)))
EVID = os.environ.get("VERIF_EVIDENCE_DIR") or os.path.join(VERIF, "evidence")
KNOWN = os.path.join(VERIF, "known_findings.txt")


def load_known():
    """lines:  known: property=<id> key=<key> <text>      (suppresses exactly that key)
               fixed: property=<id> <commit> key=<key> <text>   (suppresses nothing)"""
    known = {}
    fixed = []
    if os.path.exists(KNOWN):
        for ln in open(KNOWN):
            ln = ln.strip()
            if not ln or ln.startswith("#"):
                continue
            m = re.match(r"known:\s+property=(\S+)\s+key=(\S+)\s*(.*)", ln)
            if m:
                known[(m.group(1), m.group(2))] = m.group(3)
                continue
            m = re.match(r"fixed:\s+property=(\S+)\s+(.*)", ln)
            if m:
                fixed.append((m.group(1), m.group(2)))
    return known, fixed


def norm_path(p):
    """def-path with lifetimes removed, so keys survive lifetime renames"""
    p = re.sub(r"'[A-Za-z_][A-Za-z0-9_]*\s*", "", p)
    p = re.sub(r"<\s*>", "", p)
    return p.replace(" ", "")


def import_rules(rep, mod, facts, tier, tag, pred=lambda k: True):
    """run another property's rule module and adopt the instances selected by pred as obligations of rep
    (used where one property's behaviour rests on a routine whose contract is another property's subject)"""
    sub = Report(rep.pid, tier)
    mod.run(sub, facts, tier)
    viol = {k: (m, w) for k, m, w in sub.violations}
    n = 0
    for k, ok, nt in sub.obligations:
        if not pred(k):
            continue
        n += 1
        m, w = viol.get(k, ("holds", None))
        rep.ob("%s/%s" % (tag, k), ok, m, nontrivial=nt, where=w)
    for u in sub.unmodelled:
        if u not in rep.unmodelled:
            rep.unmodelled.append(u)
    return n


class Report:
    def __init__(self, pid, tier, level="other"):
        self.pid = pid
        self.tier = tier
        self.level = level
        self.t0 = time.time()
        self.obligations = []      # (key, ok, detail, nontrivial)
        self.violations = []       # (key, msg, detail)
        self.infos = []
        self.samples = []
        self.analysed = {}
        self.assumptions = []
        self.trusted = []
        self.explanation = ""
        self.rules = []
        self.unmodelled = []
        self.extra = {}
        self.fatal = []

    # -- recording -------------------------------------------------------------------------
    def ob(self, key, ok, detail="", nontrivial=True, sample=None, where=None):
        """one obligation = one rule instance.  A failed obligation is a violation."""
        self.obligations.append((key, bool(ok), nontrivial))
        if sample is not None and len(self.samples) < 12:
            self.samples.append(sample)
        elif ok and nontrivial and len(self.samples) < 6:
            self.samples.append({"obligation": key, "result": "holds", "detail": str(detail)[:400]})
        if not ok:
            self.violations.append((key, str(detail), where))
        return ok

    def info(self, msg):
        self.infos.append(msg)

    def fail_closed(self, msg):
        """missing anchor / floor not met / fact extraction hole: the check cannot pass"""
        self.fatal.append(msg)

    def floor(self, name, got, want):
        self.analysed[name] = got
        if got < want:
            self.fail_closed("floor %s: analysed %d < %d confirmed by hand on the pinned tree" % (name, got, want))

    # -- output ----------------------------------------------------------------------------
    def finish(self):
        # fail closed: a construct or callee the engine could not interpret on an analysed data path means the verdicts above were
        # reached without seeing all of the code - that is a finding of its own, never a pass
        for u in sorted(set(self.unmodelled)):
            key = "UNMODELLED/" + re.sub(r"\s+at\s+\S+:\d+:\d+.*$", "", u)[:160]
            if key not in {k for k, _, _ in self.obligations}:
                self.ob(key, False, "not interpreted on an analysed path (extend rules/summaries.py or the engine, then re-run): " + u, nontrivial=False)
        known, fixed = load_known()
        vdir = os.path.join(EVID, self.pid + ".violations")
        os.makedirs(EVID, exist_ok=True)
        if os.path.isdir(vdir):
            for f in os.listdir(vdir):
                os.remove(os.path.join(vdir, f))
        rc = 0
        matched_known = []
        unsuppressed = []
        seen = set()
        for key, msg, where in self.violations:
            if key in seen:
                continue
            seen.add(key)
            if (self.pid, key) in known:
                print("KNOWN-FINDING: property=%s %s %s" % (self.pid, key, known[(self.pid, key)]))
                matched_known.append(key)
                continue
            unsuppressed.append(key)
            os.makedirs(vdir, exist_ok=True)
            fn = os.path.join(vdir, re.sub(r"[^A-Za-z0-9_.-]+", "_", key)[:150] + ".json")
            with open(fn, "w") as fh:
                json.dump({"property": self.pid, "key": key, "where": where, "message": msg,
                           "tree": self.analysed.get("tree")}, fh, indent=1)
            print("VIOLATION property=%s replay=%s" % (self.pid, fn))
            print("  rule-instance: %s" % key)
            if where:
                print("  at: %s" % where)
            for ln in msg.splitlines()[:12]:
                print("  " + ln)
            rc = 1
        for m in self.fatal:
            os.makedirs(vdir, exist_ok=True)
            fn = os.path.join(vdir, "check-failed-closed.json")
            with open(fn, "w") as fh:
                json.dump({"property": self.pid, "fatal": self.fatal}, fh, indent=1)
            print("CHECK-FAILED-CLOSED property=%s: %s" % (self.pid, m))
            rc = 1
        if self.fatal:
            print("VIOLATION property=%s replay=%s" % (self.pid, os.path.join(vdir, "check-failed-closed.json")))
        for m in self.infos[:40]:
            print("INFO: " + m)
        nob = len(self.obligations)
        distinct = len({k for k, ok, nt in self.obligations if nt})
        held = sum(1 for k, ok, nt in self.obligations if ok)
        ev = {
            "property_id": self.pid,
            "tier": self.tier,
            "seed": int(os.environ.get("VERIF_SEED", "0") or 0),
            "level": self.level,
            "coverage": {
                "explanation": self.explanation,
                "evaluations": nob,
                "distinct_nontrivial": distinct,
                "rule": "one evaluation = one static obligation (rule instance on one impl / routine / constant / "
                        "guard row / construction site / call site); non-trivial = the subject term is not a bare "
                        "parameter or literal; distinct = distinct obligation keys",
                "obligations": nob,
                "discharged": held,
                "samples": self.samples[:12] or [{"note": "no obligations"}],
                "exhaustive": bool(self.extra.get("exhaustive", False)),
                "analysed": self.analysed,
                "rules_applied": self.rules,
                "unmodelled_on_data_path": self.unmodelled[:50],
                "trusted_base": self.trusted,
                "checker_cmd": "./check %s --tier %s" % (self.pid, self.tier),
                "known_findings_matched": matched_known,
                "info": self.infos[:60],
            },
            "assumptions": self.assumptions,
            "wall_s": round(time.time() - self.t0, 2),
            "violations": len(unsuppressed) + len(self.fatal),
        }
        for k, v in self.extra.items():
            if k != "exhaustive":
                ev["coverage"][k] = v
        with open(os.path.join(EVID, self.pid + ".json"), "w") as fh:
            json.dump(ev, fh, indent=1, default=str)
        print("%s: %d obligations, %d hold, %d violation(s), %d known finding(s) [%s, %.1fs]" % (
            self.pid, nob, held, len(unsuppressed) + len(self.fatal), len(matched_known), self.tier,
            time.time() - self.t0))
        return rc
