"""C04 — every form of addition, subtraction and negation computes the group law.

FWD [S]: each operator impl the compiler lists (Add/Sub/Neg/AddAssign/SubAssign/Sum with a group point as
Self or Rhs, plus negate / double_in_place) reduces to the canonical abstract operation on its own operands.
IDEAL (cfg M): the hand-written extended-coordinate formulas satisfy the twisted-Edwards addition law as
polynomial identities modulo T*Z = X*Y and the curve equation (normal-form reduction, no sampling).
CONST: the identity and generator constants are what they claim to be.
"""
import re
from . import terms as Tm, consts as K, poly as P
from .terms import mk, lit, field, TRUE, FALSE
from . import curve as C
from .curve import Cfg
from .common import norm_path
from . import groupops as G
from . import c17

TRAITS = ("core::ops::Add", "core::ops::Sub", "core::ops::Neg", "core::ops::AddAssign", "core::ops::SubAssign", "core::iter::Sum")


def named_methods(rep, cfg, loc):
    if cfg.name in ("A", "R"):
        p = cfg.one(rep, "Element::negate", lambda x: x.endswith("Element>::negate") and "r1cs" not in x)
        if p:
            out = cfg.run(p, local=loc)
            got = G.den(out.value)
            rep.ob("FWD/%s/Element::negate" % cfg.name, got is mk("gneg", mk("param", "self")), "negate must be G_NEG(self); got %s" % Tm.show(got, maxdepth=5), where=cfg.where(p))
        p = cfg.one(rep, "Group::double_in_place", lambda x: x.endswith("::double_in_place") and "impl ark_ec::Group for" in x)
        if p:
            out = cfg.run(p, local=loc)
            got = G.den(out.outs.get(0, mk("bottom")))
            ret = G.den(out.value)
            rep.ob("FWD/%s/Group::double_in_place" % cfg.name, got is mk("gdbl", mk("param", "self")) and ret is got,
                   "double_in_place must set *self := G_DBL(self) and return it; post-state %s, return %s" % (Tm.show(got, maxdepth=5), Tm.show(ret, maxdepth=5)), where=cfg.where(p))
        # identity values
        for what, pred in (("Default::default", lambda x: x.endswith("::default") and "Default for ark_curve::element::projective::Element" in x or x == "<ark_curve::element::projective::Element as core::default::Default>::default"),
                           ("Zero::zero", lambda x: x.endswith("::zero") and "Zero" in x and "projective::Element" in x and "r1cs" not in x)):
            ps = cfg.find(pred)
            for p in ps:
                out = cfg.run(p, local=loc)
                got = G.den(out.value)
                rep.ob("FWD/%s/%s" % (cfg.name, what), got is mk("gzero"), "%s must denote the identity; got %s" % (what, Tm.show(got, maxdepth=4)), where=cfg.where(p))


def curve_config_methods(rep, cfg):
    """arkworks' twisted-Edwards formulas call back into the crate's TECurveConfig: mul_by_a must be multiplication by COEFF_A"""
    if cfg.name not in ("A", "R"):
        return
    p = cfg.one(rep, "TECurveConfig::mul_by_a", lambda x: x.endswith("TECurveConfig>::mul_by_a") and "Decaf377EdwardsConfig" in x)
    if p:
        out = cfg.run(p)
        N = cfg.norm
        e = mk("param", cfg.prog.bodies[p]["params"][0].get("name", "elem"))
        want = mk("mul", mk("felem", "fq", K.A_COEFF % K.Q), e)
        ok = N.pkey(N.poly(out.value)) == N.pkey(N.poly(want)) and not out.unmodelled
        rep.ob("FWD/%s/TECurveConfig::mul_by_a" % cfg.name, ok, "mul_by_a(e) is used by arkworks' group formulas and must equal COEFF_A * e = -e; got %s" % Tm.show(out.value, maxdepth=4), where=cfg.where(p))
    # overrides of the config trait: only the ones read and tabled
    for im in cfg.prog.impls:
        if im.get("trait_only", "").endswith("TECurveConfig") and "Decaf377EdwardsConfig" in im["self"]:
            fns = sorted(it["name"] for it in im["items"] if it["kind"].startswith("Fn"))
            rep.ob("FWD/%s/TECurveConfig:overrides" % cfg.name, fns == ["is_in_correct_subgroup_assuming_on_curve", "mul_by_a"],
                   "TECurveConfig overrides %s: mul_by_a (checked) and the constant-true subgroup test (C06: elements only arise from VALID provenance) are the tabled ones" % fns, nontrivial=False)


def ideal_rule(rep, cfg):
    """cfg M: add / double / neg formulas"""
    N = cfg.norm
    q = K.Q
    a, d = K.A_COEFF, K.D_COEFF
    S1, S2 = mk("param", "self"), mk("param", "other")
    X1, Y1, Z1, T1 = [field(S1, k) for k in "xyzt"]
    X2, Y2, Z2, T2 = [field(S2, k) for k in "xyzt"]
    # fresh affine parameters
    sym = {n: mk("param", n) for n in ("ax1", "ay1", "ax2", "ay2")}
    pid = {n: P.atom_id(N, t) for n, t in sym.items()}

    def pp(t):
        return N.poly(t)

    def param_subst(poly):
        m = {}
        for (X, Y, Z, T, ax, ay) in ((X1, Y1, Z1, T1, "ax1", "ay1"), (X2, Y2, Z2, T2, "ax2", "ay2")):
            z = pp(Z)
            m[P.atom_id(N, X)] = N.mul(pp(sym[ax]), z)
            m[P.atom_id(N, Y)] = N.mul(pp(sym[ay]), z)
            m[P.atom_id(N, T)] = N.mul(N.mul(pp(sym[ax]), pp(sym[ay])), z)
        r = P.subst_atoms(N, poly, m)
        r = P.reduce_te_curve(N, r, pid["ax1"], pid["ay1"], a, d)
        r = P.reduce_te_curve(N, r, pid["ax2"], pid["ay2"], a, d)
        return r

    def law(rep, key, pt, P1, P2, where):
        (X3, Y3, Z3, T3) = pt
        (x1, y1, z1, t1), (x2, y2, z2, t2) = P1, P2
        mul, add, sub = (lambda u, v: mk("mul", u, v)), (lambda u, v: mk("add", u, v)), (lambda u, v: mk("sub", u, v))
        dT = mul(mk("felem", "fq", d % q), mul(t1, t2))
        zz = mul(z1, z2)
        obs = {
            "x": sub(mul(X3, add(zz, dT)), mul(Z3, add(mul(x1, y2), mul(y1, x2)))),
            "y": sub(mul(Y3, sub(zz, dT)), mul(Z3, sub(mul(y1, y2), mul(mk("felem", "fq", a % q), mul(x1, x2))))),
            "t": sub(mul(T3, Z3), mul(X3, Y3)),
        }
        allok = True
        for nm, ob in obs.items():
            r = param_subst(pp(ob))
            ok = not r
            allok &= ok
            rep.ob("%s:%s" % (key, nm), ok,
                   "obligation %s of the twisted-Edwards law (a=-1, d=%d) must reduce to 0 modulo T*Z=X*Y and the curve equation; remainder: %s" % (
                       {"x": "X3*(Z1Z2 + d T1T2) = Z3*(X1Y2 + Y1X2)", "y": "Y3*(Z1Z2 - d T1T2) = Z3*(Y1Y2 - a X1X2)", "t": "T3*Z3 = X3*Y3"}[nm], d, N.show(r, 5)),
                   where=where, sample={"obligation": "%s:%s" % (key, nm), "remainder_terms": len(r)})
        # completeness: Z3 must be a non-zero constant times a product of factors that never vanish on valid points:
        # Z1, Z2 and the two denominators 1 +- d x1x2y1y2 of the affine law (non-vanishing because d is a non-square
        # and a = -1 a square: Bernstein-Lange completeness).  A formula whose Z3 has another factor (e.g. x1y2 - y1x2,
        # the "dedicated" addition) returns (0:0:0:0) on some valid inputs although every cross-multiplied obligation holds.
        z3 = param_subst(pp(Z3))
        same = P1 is P2 or all(u is v for u, v in zip(P1, P2))
        kap = N.mul(N.mul(pp(sym["ax1"]), pp(sym["ay1"])), N.mul(pp(sym["ax1" if same else "ax2"]), pp(sym["ay1" if same else "ay2"])))
        dk = N.scale(kap, d)
        plus, minus = N.add(N.const(1), dk), N.add(N.const(1), dk, -1)
        found = None
        if z3:
            for ea in range(0, 5):
                for eb in ([0] if same else range(0, 5)):
                    for e1 in range(0, 3):
                        for e2 in range(0, 3):
                            cand = N.const(1)
                            for _ in range(ea):
                                cand = N.mul(cand, pp(z1))
                            for _ in range(eb):
                                cand = N.mul(cand, pp(z2))
                            for _ in range(e1):
                                cand = N.mul(cand, plus)
                            for _ in range(e2):
                                cand = N.mul(cand, minus)
                            cand = P.reduce_te_curve(N, cand, pid["ax1"], pid["ay1"], a, d)
                            cand = P.reduce_te_curve(N, cand, pid["ax2"], pid["ay2"], a, d)
                            if set(cand) == set(z3):
                                m0 = next(iter(cand))
                                c = z3[m0] * pow(cand[m0], -1, q) % q
                                if c and all(z3[m] == cand[m] * c % q for m in cand):
                                    found = (c, ea, eb, e1, e2)
                                    break
                        if found:
                            break
                    if found:
                        break
                if found:
                    break
        rep.ob(key + ":complete", found is not None,
               "Z3 must equal c * Z1^a Z2^b (1 + d x1x2y1y2)^e (1 - d x1x2y1y2)^f with c != 0 (only never-vanishing factors): %s" % (
                   "c=%d a=%d b=%d e=%d f=%d" % found if found else "NO such factorisation - Z3 = %s has a factor that vanishes on valid inputs (incomplete formula)" % N.show(z3, 6)),
               where=where, sample={"obligation": key + ":complete", "factorisation": found})
        return allok

    padd = cfg.one(rep, "min Add for Element", lambda p: p == "<min_curve::element::Element as core::ops::Add>::add")
    if padd:
        out = cfg.run(padd)
        co = C.coords(out.value)
        if co is None:
            rep.ob("IDEAL/M/add:shape", False, "add does not return an Element built from coordinates: %s" % Tm.show(out.value, maxdepth=4), where=cfg.where(padd))
        else:
            X3, Y3, Z3, T3 = co
            law(rep, "IDEAL/M/add", (X3, Y3, Z3, T3), (X1, Y1, Z1, T1), (X2, Y2, Z2, T2), cfg.where(padd))
    pdbl = cfg.one(rep, "min Element::double", lambda p: p == "min_curve::element::Element::double")
    if pdbl:
        out = cfg.run(pdbl)
        co = C.coords(out.value)
        if co is None:
            rep.ob("IDEAL/M/double:shape", False, "double does not return an Element built from coordinates", where=cfg.where(pdbl))
        else:
            X3, Y3, Z3, T3 = co
            law(rep, "IDEAL/M/double", (X3, Y3, Z3, T3), (X1, Y1, Z1, T1), (X1, Y1, Z1, T1), cfg.where(pdbl))
    pneg = cfg.one(rep, "min Neg for Element", lambda p: p == "<min_curve::element::Element as core::ops::Neg>::neg")
    if pneg:
        out = cfg.run(pneg)
        co = C.coords(out.value)
        ok = co is not None and [N.pkey(N.poly(c)) for c in co] == [N.pkey(N.poly(t)) for t in (mk("neg", X1), Y1, Z1, mk("neg", T1))]
        rep.ob("IDEAL/M/neg", ok, "neg must be (-X : Y : Z : -T); got %s" % (Tm.show(out.value, maxdepth=5)), where=cfg.where(pneg))
    # curve constants used by the formulas
    for nm, want in (("COEFF_K", 2 * d), ("COEFF_D", d), ("COEFF_A", a)):
        c = cfg.prog.consts.get("min_curve::constants::" + nm)
        if c:
            v = K.felt(c["value"]["val"], "fq")[1]
            rep.ob("CONST/M/" + nm, v == want % q, "%s = %s, required %s" % (nm, hex(v), hex(want % q)), where=c["sp"], nontrivial=False)


def run(rep, facts, tier):
    rep.explanation = (
        "FWD: the compiler's impl table enumerates every Add/Sub/Neg/AddAssign/SubAssign/Sum impl that involves Element or AffinePoint; each "
        "body is interpreted (callees inlined down to the arkworks point operations, which are summarised as abstract group ops) and its "
        "denotation must be G_ADD / G_ADD(.,G_NEG) / G_NEG on the impl's own operands. IDEAL: the minimal backend's hand formulas are "
        "extracted as polynomials and each coordinate obligation of the a=-1 twisted Edwards law is reduced to normal form modulo the "
        "relations - zero remainder for all inputs.")
    rep.rules += ["FWD", "IDEAL", "CONST"]
    rep.trusted += ["arkworks twisted_edwards::{Projective,Affine} operators compute the complete a=-1 group law", "rustc trait resolution"]
    rep.assumptions += ["completeness of the unified formulas for a=-1 (square) and d non-square (Hisil et al.); d non-square is checked as a constant fact"]
    cfgs = {k: Cfg(f) for k, f in facts.items()}
    counts = {}
    for name, cfg in cfgs.items():
        if name == "R":
            continue
        loc = G.base_summaries_M(cfg, rep) if name == "M" else {}
        G.check_select(rep, cfg)
        G.config_hooks(rep, cfg, "C04")
        ncov = G.check_trait_method_cover(rep, cfg)
        if name == "A":
            rep.floor("trait_methods_covered_A", ncov, 16)
        nid = G.check_identity_forms(rep, cfg, "C04")
        if name == "A":
            rep.floor("identity_forms_A", nid, 5)
        ops = G.enumerate_ops(cfg, TRAITS)
        counts[name] = len(ops)
        for path, b, tr, sorts in ops:
            if name == "M" and path in loc:
                continue      # base routine: decided by the IDEAL rule
            G.check_fwd(rep, cfg, path, b, tr, sorts, loc, "C04")
        named_methods(rep, cfg, loc)
        curve_config_methods(rep, cfg)
        if name == "M":
            ideal_rule(rep, cfg)
        c17.curve_constants(rep, facts[name], name)
    if "R" in cfgs:
        from . import gadgets
        gadgets.check_gadget_group_ops(rep, cfgs["R"], "C04")
    rep.analysed["operator_impls"] = counts
    if "A" in counts:
        rep.floor("operator_impls_A", counts["A"], 40)
    if "M" in counts:
        rep.floor("operator_impls_M", counts["M"], 13)
