"""C05 — scalar multiplication is the Z/r-module action; all elements have order | r.

FWD [S]: every Mul/MulAssign impl between a group point and Fr, mul_bigint, and the multiscalar stub reduce to
G_SMUL on their own operands.  LADDER (cfg M): the loop summary of scalar_mul_both is the LSB-first
double-and-add template over the whole canonical limb slice (both the variable-time and the constant-time
variant).  CONST: cofactor 1, r prime, generator of exact order r in the quotient.
"""
import re
from . import terms as Tm, consts as K
from .terms import mk, lit, field, TRUE, FALSE
from . import curve as C
from .curve import Cfg
from .common import norm_path
from . import groupops as G
from . import c17

TRAITS = ("core::ops::Mul", "core::ops::MulAssign")


def named(rep, cfg, loc):
    if cfg.name not in ("A", "R"):
        return
    for what, pred in (("Group::mul_bigint", lambda x: x.endswith("::mul_bigint") and "impl ark_ec::Group for" in x),
                       ("AffineRepr::mul_bigint", lambda x: x.endswith("::mul_bigint") and "impl ark_ec::AffineRepr for" in x)):
        p = cfg.one(rep, what, pred)
        if not p:
            continue
        out = cfg.run(p, local=loc)
        got = G.den(out.value)
        want = mk("gsmulbig", mk("param", "self"), mk("param", "other"))
        rep.ob("FWD/%s/%s" % (cfg.name, what), got is want, "%s must forward the whole integer to the point's own scalar multiplication: expected %s, got %s" % (
            what, Tm.show(want), Tm.show(got, maxdepth=6)), where=cfg.where(p), sample={"obligation": what, "got": Tm.show(got, maxdepth=5)})
    p = cfg.one(rep, "vartime_multiscalar_mul", lambda x: x.endswith("::vartime_multiscalar_mul"))
    if p:
        out = cfg.run(p, local=loc)
        got = G.den(out.value)
        ok = False
        why = Tm.show(got, maxdepth=6)
        if got.op == "proj" and got.args[0].op == "fold":
            it, item, accs, inits, nexts = got.args[0].args
            nx = G.den(nexts[0])
            if it.op == "seq_map_t":
                # zip(..).map(|(s, p)| s * p).sum(): the products are formed first, the fold adds them up
                mitem, body, src = it.args
                zipped = src.op == "zip" and src.args[0] is mk("param", "scalars") and src.args[1] is mk("param", "points")
                sc, pt = field(mitem, "0"), field(mitem, "1")
                prod_ok = G.den(body) is mk("gsmul", pt, sc)
                next_ok = prod_ok and (nx is mk("gadd", accs[0], item) or nx is mk("gadd", item, accs[0]))
            else:
                zipped = it.op == "zip" and it.args[0] is mk("param", "scalars") and it.args[1] is mk("param", "points")
                sc, pt = field(item, "0"), field(item, "1")
                next_ok = nx is mk("gadd", accs[0], mk("gsmul", pt, sc)) or nx is mk("gadd", mk("gsmul", pt, sc), accs[0])
            init_ok = G.den(inits[0]) is mk("gzero")
            ok = zipped and init_ok and next_ok
            why = "iterator zip(scalars, points): %s, starts at identity: %s, step acc + scalar*point: %s (%s)" % (zipped, init_ok, next_ok, Tm.show(nx, maxdepth=5))
        rep.ob("FWD/%s/vartime_multiscalar_mul" % cfg.name, ok, "multiscalar multiplication must be FOLD(zip(scalars, points), identity, acc + s*P): %s" % why, where=cfg.where(p))
    # VariableBaseMSM: empty impl (arkworks default over batch_convert_to_mul_base) - recorded
    for im in cfg.prog.impls:
        if im.get("trait_only", "").startswith("ark_ec::VariableBaseMSM") and im["self"].endswith("projective::Element"):
            fns = [it["name"] for it in im["items"] if it["kind"].startswith("Fn")]
            rep.ob("FWD/%s/VariableBaseMSM" % cfg.name, fns == [], "VariableBaseMSM for Element overrides %s; the arkworks default (sum of s_i*P_i over batch_convert_to_mul_base) is what C05 relies on" % fns,
                   nontrivial=False)


def ladder(rep, cfg):
    """cfg M: the scalar-multiplication ladder(s) are LSB-first double-and-add over the whole slice.  With the shared const-generic helper
    scalar_mul_both::<CT> that helper is judged for both variants and the two public routines must call it; without it, each public routine is
    judged on its own."""
    helper = "min_curve::element::Element::scalar_mul_both"
    if helper in cfg.prog.bodies:
        return ladder_template(rep, cfg, helper, "LADDER/M/scalar_mul_both", both_variants=True, check_callers=True)
    n = 0
    for nm in ("scalar_mul", "scalar_mul_vartime"):
        pp = cfg.one(rep, nm, lambda x: x == "min_curve::element::Element::" + nm)
        if pp:
            ladder_template(rep, cfg, pp, "LADDER/M/" + nm, both_variants=False, check_callers=False)
            n += 1
    return n


def ladder_template(rep, cfg, p, key, both_variants, check_callers):
    loc = G.base_summaries_M(cfg, rep)
    for k_ in ("min_curve::element::Element::scalar_mul_both", "min_curve::element::Element::scalar_mul", "min_curve::element::Element::scalar_mul_vartime"):
        loc.pop(k_, None)
    out = cfg.run(p, local=loc)
    v = out.value
    S, bits = mk("param", "self"), mk("param", "le_bits")
    probs = []
    ok = False
    if v.op == "proj" and v.args[0].op == "fold" and v.args[0].args[0].op == "flat_map_t":
        # one loop over the flattened bit stream  limbs.flat_map(|limb| (0..64).map(|i| (limb >> i) & 1))
        it, flagitem, accs, inits, nexts = v.args[0].args
        limb, inner, src = it.args
        stream_ok = src is bits and limb is mk("item_of", src) and inner.op == "seq_map_t"
        if stream_ok:
            i_, body, rngsrc = inner.args
            rng = dict(zip(rngsrc.args[1], rngsrc.args[2:])) if rngsrc.op == "struct" and rngsrc.args[0] == "core::ops::Range" else {}
            bitv = Tm.intop("band", Tm.intop("shr", limb, i_), lit(1))
            b_ = body
            while b_.op == "cast":
                b_ = b_.args[1]
            stream_ok = rng.get("start") is lit(0) and rng.get("end") is lit(64) and i_ is mk("item_of", rngsrc) and b_ is bitv
        if not stream_ok:
            probs.append("the bit stream must be every limb of `le_bits` in order, bits 0..64 of each, as (limb >> i) & 1; iterator = %s" % Tm.show(it, maxdepth=6))
        ident = [k for k, t in enumerate(inits) if G.den(t) is mk("gzero") or is_identity_const(t)]
        selfi = [k for k, t in enumerate(inits) if t is S]
        if len(accs) != 2 or len(ident) != 1 or len(selfi) != 1 or ident[0] == selfi[0]:
            probs.append("state must be (acc = IDENTITY, insert = self); got %s" % [Tm.show(t, maxdepth=3) for t in inits])
        else:
            ai, ii = ident[0], selfi[0]
            if v.args[1] != ai:
                probs.append("the function returns the running multiple instead of the accumulator")
            a2, s2 = accs[ai], accs[ii]
            if G.den(nexts[ii]) is not mk("gdbl", s2):
                probs.append("running multiple must be doubled once per bit: insert' = G_DBL(insert); got %s" % Tm.show(G.den(nexts[ii]), maxdepth=5))
            t = G.den(nexts[ai])
            add_ = mk("gadd", a2, s2)
            cond_flag = None
            if t.op == "ite" and t.args[1] is add_ and t.args[2] is a2:
                cond_flag = t.args[0]
            elif t.op == "ite" and t.args[2] is add_ and t.args[1] is a2:
                cond_flag = Tm.not_(t.args[0])
            if cond_flag is None or not is_bit_test(cond_flag, flagitem):
                probs.append("acc' must be ITE(bit, G_ADD(acc, insert), acc) on the stream's bit; got %s" % Tm.show(t, maxdepth=6))
    elif not (v.op == "proj" and v.args[0].op == "fold"):
        probs.append("result is not the accumulator of a loop over the limb slice: %s" % Tm.show(v, maxdepth=4))
    else:
        outer = v.args[0]
        it, limb, accs, inits, nexts = outer.args
        if it is not bits:
            probs.append("outer loop does not iterate over the whole `le_bits` slice in order: iterator = %s" % Tm.show(it, maxdepth=4))
        idx = v.args[1]
        if len(accs) != 2:
            probs.append("expected exactly two loop-carried values (accumulator, running multiple), found %d" % len(accs))
        else:
            # which carried var is acc / insert: by initial values
            ident = [i for i, t in enumerate(inits) if G.den(t) is mk("gzero") or is_identity_const(t)]
            selfi = [i for i, t in enumerate(inits) if t is S]
            if len(ident) != 1 or len(selfi) != 1 or ident[0] == selfi[0]:
                probs.append("initial state must be (acc = IDENTITY, insert = self); got %s" % [Tm.show(t, maxdepth=3) for t in inits])
            else:
                ai, ii = ident[0], selfi[0]
                if idx != ai:
                    probs.append("the function returns the running multiple instead of the accumulator")
                na, ni = nexts[ai], nexts[ii]
                inner_ok = na.op == "proj" and na.args[0].op == "fold" and ni.op == "proj" and ni.args[0] is na.args[0]
                if not inner_ok:
                    probs.append("inner loop over the 64 bits of a limb not found")
                else:
                    inner = na.args[0]
                    it2, i, accs2, inits2, nexts2 = inner.args
                    rng = dict(zip(it2.args[1], it2.args[2:])) if it2.op == "struct" else {}
                    if not (it2.op == "struct" and it2.args[0] == "core::ops::Range" and rng.get("start") is lit(0) and rng.get("end") is lit(64)):
                        probs.append("inner loop must run over bit positions 0..64; iterator = %s" % Tm.show(it2, maxdepth=4))
                    if tuple(inits2) != tuple(accs):
                        probs.append("inner loop does not start from the outer loop's state")
                    a2, s2 = accs2[ai], accs2[ii]
                    flag = Tm.intop("band", Tm.intop("shr", limb, i), lit(1))
                    want_ins = mk("gdbl", s2)
                    got_ins = G.den(nexts2[ii])
                    if got_ins is not want_ins:
                        probs.append("running multiple must be doubled once per bit: insert' = G_DBL(insert); got %s" % Tm.show(got_ins, maxdepth=5))
                    got_acc = G.den(nexts2[ai])
                    add_ = mk("gadd", a2, s2)
                    ct = mk("constparam", "CT") if not Tm.contains(got_acc, lambda s: s.op == "const" and s.args[0].endswith("CT")) else None
                    # both variants: CT -> select(acc, acc+ins, flag) ; vartime -> if flag == 1 {acc+ins} else {acc}
                    cands = acc_variants(got_acc)
                    fine = True
                    for variant_name, t in cands:
                        cond_flag = None
                        if t.op == "ite" and t.args[1] is add_ and t.args[2] is a2:
                            cond_flag = t.args[0]
                        elif t.op == "ite" and t.args[2] is add_ and t.args[1] is a2:
                            cond_flag = Tm.not_(t.args[0])
                        if cond_flag is None:
                            fine = False
                            probs.append("%s variant: acc' must be ITE(bit, G_ADD(acc, insert), acc); got %s" % (variant_name, Tm.show(t, maxdepth=6)))
                            continue
                        if not is_bit_test(cond_flag, flag):
                            fine = False
                            probs.append("%s variant: the selected bit must be (limb >> i) & 1; got %s" % (variant_name, Tm.show(cond_flag, maxdepth=6)))
                    if both_variants and len(cands) < 2:
                        probs.append("could not separate the constant-time and variable-time variants (const generic CT)")
    for u in out.unmodelled:
        probs.append("construct outside the ladder template: " + u)
    if probs:
        # second reading: execute the per-limb work concretely (64 bit positions, whatever loops / tables it is organised in) and judge the
        # resulting chain.  Only consulted when the loop-shaped template above does not apply; it accepts nothing but the same function.
        alt = ladder_unrolled(cfg, p, loc, S, bits, both_variants)
        if alt is True:
            probs = []
        elif alt:
            probs.append("(per-limb reading: %s)" % alt)
    rep.ob(key, not probs, "the ladder must be the LSB-first double-and-add over all limbs x 64 bits%s: " % (" for both CT and vartime" if both_variants else "") +
           ("template matched" if not probs else "; ".join(probs[:4])), where=cfg.where(p),
           sample={"obligation": key, "loop": Tm.show(v, maxdepth=3)})
    if not check_callers:
        return
    # callers pass canonical limbs of the scalar
    for nm in ("scalar_mul", "scalar_mul_vartime"):
        pp = cfg.one(rep, nm, lambda x: x == "min_curve::element::Element::" + nm)
        if pp:
            o = cfg.run(pp, local=G.base_summaries_M(cfg, rep))
            want_ct = TRUE if nm == "scalar_mul" else FALSE
            ok2 = o.value is mk("gsmul_limbs", S, bits)
            rep.ob("LADDER/M/" + nm, ok2, "%s must call the ladder on (self, le_bits); got %s" % (nm, Tm.show(o.value, maxdepth=4)), where=cfg.where(pp), nontrivial=False)
            # the const generic argument
            b = cfg.prog.bodies[pp]
            ct_arg = find_ct_arg(b["body"])
            rep.ob("LADDER/M/%s:CT" % nm, ct_arg == ("true" if nm == "scalar_mul" else "false"),
                   "%s must instantiate the ladder with CT = %s; found %s" % (nm, nm == "scalar_mul", ct_arg), where=cfg.where(pp), nontrivial=False)


def ladder_unrolled(cfg, p, loc, S, bits, both_variants):
    """True if, with everything inside the loop over the limbs executed for its 64 bit positions, one limb's step is
       acc' = t_63, t_k = ITE(bit k of limb, G_ADD(t_{k-1}, G_DBL^k(insert)), t_{k-1}), t_{-1} = acc;  insert' = G_DBL^64(insert)
    (for both values of the const generic CT), over the whole slice, from (IDENTITY, self), returning acc.  Otherwise a reason."""
    from . import engine as E, summaries as Sm
    try:
        I = E.Interp(cfg.prog, Sm.Summaries(local=loc), {"unroll_max": 64})
        out = I.run(p)
    except RecursionError:
        return "too deep"
    if out.unmodelled:
        return "unmodelled: " + "; ".join(out.unmodelled[:2])
    v = out.value
    if not (v.op == "proj" and v.args[0].op == "fold"):
        return "no loop over the limbs"
    it, limb, accs, inits, nexts = v.args[0].args
    if it is not bits or len(accs) != 2:
        return "the outer loop must run over the whole `le_bits` slice carrying (acc, insert)"
    ident = [i for i, t in enumerate(inits) if G.den(t) is mk("gzero") or is_identity_const(t)]
    selfi = [i for i, t in enumerate(inits) if t is S]
    if len(ident) != 1 or len(selfi) != 1 or ident[0] == selfi[0] or v.args[1] != ident[0]:
        return "state must start at (IDENTITY, self) and the accumulator must be returned"
    ai, ii = ident[0], selfi[0]
    a0, s0 = accs[ai], accs[ii]
    d = s0
    dbl = [d]
    for _ in range(64):
        d = mk("gdbl", d)
        dbl.append(d)
    if G.den(nexts[ii]) is not dbl[64]:
        return "insert must be doubled exactly 64 times per limb"
    na = G.den(nexts[ai])
    cps = [u for u in Tm.subterms(na) if u.op == "constparam"]
    variants = [("single", na)] if not cps else [("constant-time", Tm.assume(na, cps[0], True)), ("variable-time", Tm.assume(na, cps[0], False))]
    if both_variants and len(variants) < 2:
        return "could not separate the constant-time and variable-time variants"
    for vn, t in variants:
        for k in range(63, -1, -1):
            flag = Tm.intop("band", Tm.intop("shr", limb, lit(k)), lit(1))
            if t.op != "ite":
                return "%s: step %d is not a selection: %s" % (vn, k, Tm.show(t, maxdepth=3))
            c, x, y = t.args
            if x.op == "gadd" and x.args[0] is y and x.args[1] is dbl[k] and is_bit_test(c, flag):
                t = y
            elif y.op == "gadd" and y.args[0] is x and y.args[1] is dbl[k] and is_bit_test(Tm.not_(c), flag):
                t = x
            else:
                return "%s: step %d must be ITE(bit %d, G_ADD(t, 2^%d * insert), t); got %s" % (vn, k, k, k, Tm.show(t, maxdepth=4))
        if t is not a0:
            return "%s: the chain does not start from the accumulator" % vn
    return True


def find_ct_arg(node):
    if isinstance(node, dict):
        c = node.get("callee") or (node.get("r") or {}).get("callee") if isinstance(node.get("r"), dict) else node.get("callee")
        if isinstance(c, dict) and c.get("path", "").endswith("scalar_mul_both"):
            a = c.get("args") or []
            return a[-1] if a else None
        for v in node.values():
            r = find_ct_arg(v)
            if r is not None:
                return r
    elif isinstance(node, list):
        for v in node:
            r = find_ct_arg(v)
            if r is not None:
                return r
    return None


def is_identity_const(t):
    if t.op == "struct" and t.args[0].endswith("::Element"):
        d = dict(zip(t.args[1], t.args[2:]))
        f = lambda n: mk("felem", "fq", n)
        return d.get("x") is f(0) and d.get("y") is f(1) and d.get("z") is f(1) and d.get("t") is f(0)
    return False


def acc_variants(t):
    """split on the const generic CT"""
    if t.op == "ite" and t.args[0].op == "constparam":
        return [("constant-time", t.args[1]), ("variable-time", t.args[2])]
    return [("single", t)]


def is_bit_test(c, flag):
    """c says "the bit is set" for bit = (limb >> i) & 1, in any spelling: bit == 1, bit != 0, !(bit == 0), Choice::from(bit as u8), ..."""
    x = c
    neg = False
    while x.op in ("not", "choice_not"):
        neg, x = not neg, x.args[0]
    if x.op == "choice_true":
        x = x.args[0]
        while x.op == "cast":
            x = x.args[1]
        return (x is flag) and not neg
    if x.op in ("eq", "ne"):
        a, b = x.args
        for u, v in ((a, b), (b, a)):
            if Tm.is_lit(v) and v.args[0] in (0, 1) and v.args[0] is not True and v.args[0] is not False:
                while u.op == "cast":
                    u = u.args[1]
                if u is flag:
                    is_set = (v.args[0] == 1) == (x.op == "eq")      # bit == 1 / bit != 0  -> set;   bit == 0 / bit != 1 -> clear
                    return is_set != neg
    return False


def run(rep, facts, tier):
    rep.explanation = (
        "FWD: every Mul/MulAssign impl between Element/AffinePoint and Fr listed by the compiler is interpreted and must denote "
        "G_SMUL(point operand, scalar operand); mul_bigint forwards the whole integer; the multiscalar stub is a fold of s*P from the identity. "
        "LADDER: the loop summary of the minimal backend's scalar_mul_both (abstract interpretation, loops summarised as FOLD terms) is matched "
        "against the LSB-first double-and-add template - premises of the textbook induction. CONST: group-order facts on constants.")
    rep.rules += ["FWD", "LADDER", "CONST"]
    rep.trusted += ["arkworks Projective::mul_bigint / MulAssign compute the k-fold sum", "rustc trait resolution"]
    rep.assumptions += ["module laws ((a+b)P = aP+bP, r*P = 0) follow from G_SMUL being the k-fold sum and the group order (not re-proved)",
                        "G_ADD / G_DBL of the minimal backend are the group law (C04)"]
    cfgs = {k: Cfg(f) for k, f in facts.items() if k in ("A", "M")}
    counts = {}
    for name, cfg in cfgs.items():
        loc = G.base_summaries_M(cfg, rep) if name == "M" else {}
        G.check_select(rep, cfg)            # the constant-time ladder is only as good as the selection it is built on
        G.config_hooks(rep, cfg, "C05")
        ops = G.enumerate_ops(cfg, TRAITS)
        n = 0
        for path, b, tr, sorts in ops:
            r = G.check_fwd(rep, cfg, path, b, tr, sorts, loc, "C05")
            if r is not None:
                n += 1
        counts[name] = n
        if name == "A":
            # VariableBaseMSM (arkworks default, NEGATION_IS_CHEAP) adds and subtracts mixed affine/projective operands in its
            # bucket method: those operator forms are part of "MSM equals the sum of the individual products"
            from . import c04
            for path, b, tr, sorts in G.enumerate_ops(cfg, c04.TRAITS):
                if "affinepoint" in sorts or G.sort_of(b.get("impl_self", ""))[0] == "affinepoint":
                    G.check_fwd(rep, cfg, path, b, tr, sorts, loc, "C05")
        named(rep, cfg, loc)
        if name == "A":
            # Group::double / double_in_place is what arkworks' window methods (MSM, mul_bigint on the trait level) call
            from . import c04
            c04.named_methods(rep, cfg, loc)
        if name == "M":
            ladder(rep, cfg)
        c17.curve_constants(rep, facts[name], name)
    rep.analysed["scalar_mul_impls"] = counts
    if "A" in counts:
        rep.floor("scalar_mul_impls_A", counts["A"], 20)
    if "M" in counts:
        rep.floor("scalar_mul_impls_M", counts["M"], 10)
    # arkworks' generic scalar-multiplication code (window sizes of VariableBaseMSM::msm, bit iteration of mul_bigint over Fr::into_bigint) reads the
    # scalar field's published constants: C17's instances on Fr are premises of "arkworks computes the k-fold sum"
    import re as _re
    from .common import import_rules
    nfr = import_rules(rep, c17, {k: v for k, v in facts.items() if k in ("A", "M")}, tier, "SCALAR",
                       pred=lambda k: bool(_re.search(r"(::|<|/)fr(::| as |/)", k)))
    rep.floor("scalar_field_constants", nfr, 40)
