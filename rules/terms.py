"""Hash-consed term DAG with simplifying constructors.

A term is an interned node (op, args).  args are terms, strings, ints, bools or tuples of those.
Equality is identity.  The constructors perform the local simplifications that make behaviour-
preserving rewrites of the source produce the same term (ITE with equal branches, projections of
constructors, boolean constant folding, integer constant folding).
"""

_TABLE = {}


class T:
    __slots__ = ("op", "args", "_h", "__weakref__")

    def __init__(self, op, args):
        self.op = op
        self.args = args
        self._h = hash((op, args))

    def __hash__(self):
        return self._h

    def __eq__(self, other):
        return self is other

    def __repr__(self):
        return show(self)


def _small_int_limbs(f, arr):
    """from_le_limbs(f, [lo, hi, 0, ..]) where the limbs are the 64-bit halves of one integer x < 2^128:  the field element x"""
    limbs = arr.args
    if len(limbs) < 2 or any(not (l.op == "lit" and l.args[0] == 0 and l.args[0] is not False) for l in limbs[2:]):
        return None
    lo, hi = limbs[0], limbs[1]
    if all(l.op == "lit" and isinstance(l.args[0], int) and not isinstance(l.args[0], bool) for l in (lo, hi)):
        return mk("int_to_field", f, lit(lo.args[0] + (hi.args[0] << 64)))
    if lo.op == "cast" and lo.args[0] == "u64" and hi.op == "cast" and hi.args[0] == "u64" and hi.args[1] is intop("shr", lo.args[1], lit(64)):
        return mk("int_to_field", f, lo.args[1])
    if hi.op == "lit" and hi.args[0] == 0 and hi.args[0] is not False:
        return mk("int_to_field", f, lo)
    return None


def _as_u64_of_bytes(a, b):
    """b0 | b1 << 8 | ... | b7 << 56 (bytes widened to u64, in any association / order)  ==  u64::from_le_bytes([b0..b7])"""
    parts = []
    stack = [a, b]
    while stack:
        x = stack.pop()
        if isinstance(x, T) and x.op == "bor":
            stack += list(x.args)
        else:
            parts.append(x)
    if len(parts) != 8:
        return None
    slots = {}
    for x in parts:
        sh = 0
        if x.op == "shl" and x.args[1].op == "lit" and isinstance(x.args[1].args[0], int):
            sh, x = x.args[1].args[0], x.args[0]
        while x.op == "cast" and x.args[0] in ("u64", "u128", "usize"):
            x = x.args[1]
        if sh % 8 != 0 or not (0 <= sh < 64) or sh // 8 in slots:
            return None
        slots[sh // 8] = x
    if sorted(slots) != list(range(8)):
        return None
    return mk("u64_of_le_bytes", mk("array", *[slots[j] for j in range(8)]))


def mk(op, *args):
    if op == "bor" and len(args) == 2 and all(isinstance(x, T) for x in args):
        r = _as_u64_of_bytes(args[0], args[1])
        if r is not None:
            return r
    if op == "from_le_limbs" and len(args) == 2 and isinstance(args[1], T) and args[1].op == "array":
        r = _small_int_limbs(args[0], args[1])
        if r is not None:
            return r
    if op == "int_to_field" and args[1].op == "lit" and isinstance(args[1].args[0], int) and not isinstance(args[1].args[0], bool):
        from .consts import MODULI
        if args[0] in MODULI and 0 <= args[1].args[0] < MODULI[args[0]]:
            return mk("felem", args[0], args[1].args[0])
    if op == "array" and args:
        if _is_le_limbs(args):
            return mk("le_u64_limbs", args[0].args[0].args[0])
        c = _as_chunk(args)
        if c is not None:
            return c
        b = _as_limb_bytes(args)
        if b is not None:
            return b
    key = (op, args)
    t = _TABLE.get(key)
    if t is None:
        t = T(op, args)
        _TABLE[key] = t
    return t


def _is_le_limbs(args):
    b = None
    for i, a in enumerate(args):
        if not (isinstance(a, T) and a.op == "u64_of_le_bytes" and a.args[0].op == "chunk"):
            return False
        ch = a.args[0]
        if ch.args[1] != 8 or ch.args[2] != i:
            return False
        if b is None:
            b = ch.args[0]
        elif ch.args[0] is not b:
            return False
    return True


def _as_chunk(args):
    """[b[k], b[k+1], .., b[k+n-1]] with k a multiple of n (n >= 2)  ==  the k/n-th n-byte chunk of b"""
    n = len(args)
    if n < 2:
        return None
    first = args[0]
    if not (isinstance(first, T) and first.op == "index" and first.args[1].op == "lit" and isinstance(first.args[1].args[0], int)):
        return None
    base, k = first.args[0], first.args[1].args[0]
    if k % n != 0:
        return None
    for j, a in enumerate(args):
        if not (isinstance(a, T) and a.op == "index" and a.args[0] is base and a.args[1].op == "lit" and a.args[1].args[0] == k + j):
            return None
    return mk("chunk", base, n, k // n)


def byte_of(t):
    """(x, j) if t denotes byte j (little-endian) of the 64-bit integer term x, in any spelling:
    x.to_le_bytes()[j], ((x >> 8j) & 0xff) as u8, (x >> 8j) as u8, x as u8"""
    if not isinstance(t, T):
        return None
    if t.op == "index" and t.args[0].op == "le_bytes_of_u64" and t.args[1].op == "lit":
        return (t.args[0].args[0], t.args[1].args[0])
    if t.op == "cast" and t.args[0] == "u8":
        x = t.args[1]
        if x.op == "band" and any(isinstance(a, T) and a.op == "lit" and a.args[0] == 255 for a in x.args):
            x = [a for a in x.args if not (a.op == "lit" and a.args[0] == 255)][0]
        if x.op == "shr" and x.args[1].op == "lit" and isinstance(x.args[1].args[0], int) and x.args[1].args[0] % 8 == 0 and 0 <= x.args[1].args[0] < 64:
            return (x.args[0], x.args[1].args[0] // 8)
        return (x, 0)
    return None


def _as_limb_bytes(args):
    """[le(L[0])[0..8], le(L[1])[0..8], ...]  ==  little-endian bytes of the u64 limb array L"""
    n = len(args)
    if n < 16 or n % 8 != 0:
        return None
    L = None
    for pos, a in enumerate(args):
        i, j = divmod(pos, 8)
        bo = byte_of(a)
        if bo is None or bo[1] != j:
            return None
        li = bo[0]
        if not (li.op == "index" and li.args[1].op == "lit" and li.args[1].args[0] == i):
            return None
        if L is None:
            L = li.args[0]
        elif li.args[0] is not L:
            return None
    return mk("le_bytes_of_u64_limbs", L, n // 8)


def norm_range_stores(t):
    """store_range chain over a zero buffer covering [0, 8n) by le_bytes_of_u64(L[k]) at [8k, 8k+8)  ->  le_bytes_of_u64_limbs(L, n)"""
    parts = {}
    x = t
    while isinstance(x, T) and x.op == "store_range":
        base, lo, hi, val = x.args
        parts[(lo, hi)] = val
        x = base
    if not (isinstance(x, T) and x.op == "repeat" and isinstance(x.args[1], int)) or not parts:
        return t
    n8 = x.args[1]
    if n8 % 8 != 0 or sorted(parts) != [(8 * k, 8 * k + 8) for k in range(n8 // 8)]:
        return t
    L = None
    for (lo, hi), val in parts.items():
        if not (val.op == "le_bytes_of_u64" and val.args[0].op == "index" and val.args[0].args[1].op == "lit" and val.args[0].args[1].args[0] == lo // 8):
            return t
        if L is None:
            L = val.args[0].args[0]
        elif val.args[0].args[0] is not L:
            return t
    return mk("le_bytes_of_u64_limbs", L, n8 // 8)


def show(t, depth=0, maxdepth=9):
    if not isinstance(t, T):
        if isinstance(t, tuple):
            return "(" + ",".join(show(x, depth + 1, maxdepth) for x in t) + ")"
        return repr(t) if not isinstance(t, str) else t
    if depth > maxdepth:
        return "…"
    if t.op in ("lit", "bool"):
        return str(t.args[0])
    if t.op == "param":
        return "$" + str(t.args[0])
    if t.op in ("const", "static"):
        return "#" + str(t.args[0]).split("::")[-1]
    if t.op == "sym":
        return "%" + str(t.args[0])
    return t.op + "(" + ",".join(show(a, depth + 1, maxdepth) for a in t.args) + ")"


def lit(v):
    if isinstance(v, bool):
        return mk("bool", v)      # distinct node kind: in Python True == 1 and would collide with the integer literal
    return mk("lit", v)


TRUE = lit(True)
FALSE = lit(False)
UNIT = mk("unit")


_BOOLEAN_OPS = ("eq", "ne", "not", "and", "or", "sign", "isqrt_sq", "bool")


def choice_true(c):
    """the predicate `bool::from(c)` of a subtle::Choice c; Choice::from(b as u8) for a boolean b is b, !c is the negation"""
    x = c
    while isinstance(x, T) and x.op == "cast":
        x = x.args[1]
    if isinstance(x, T) and x.op in _BOOLEAN_OPS:
        return x
    if isinstance(x, T) and x.op == "choice_not":
        inner = choice_true(x.args[0])
        if inner.op != "choice_true":
            return not_(inner)
    return mk("choice_true", c)


def choice_u8(c):
    """Choice::unwrap_u8: the byte 1 when the choice holds and 0 otherwise"""
    return ite(choice_true(c), lit(1), lit(0))


def mask_of(x):
    """0.wrapping_sub(x) / x.wrapping_neg() for a 0/1 word x = [c]: the all-ones mask of the word's type under c, else None"""
    while isinstance(x, T) and x.op == "cast":
        x = x.args[1]
    if isinstance(x, T) and x.op == "ite" and x.args[1] is lit(1) and x.args[2] is lit(0):
        return mk("mask", x.args[0])
    if isinstance(x, T) and x.op == "ite" and x.args[1] is lit(0) and x.args[2] is lit(1):
        return mk("mask", not_(x.args[0]))
    return None


def is_lit(t):
    return isinstance(t, T) and t.op in ("lit", "bool")


def subterms(t, seen=None):
    """iterate over all distinct sub-terms (DAG traversal)"""
    if seen is None:
        seen = set()
    stack = [t]
    while stack:
        x = stack.pop()
        if isinstance(x, tuple):
            stack.extend(x)
            continue
        if not isinstance(x, T) or x in seen:
            continue
        seen.add(x)
        yield x
        stack.extend(x.args)


def contains(t, pred):
    for s in subterms(t):
        if pred(s):
            return True
    return False


def size(t):
    return sum(1 for _ in subterms(t))


def subst(t, mapping, memo=None):
    """replace sub-terms by mapping {term: term}; rebuilds with the simplifying constructors"""
    if memo is None:
        memo = {}
    if isinstance(t, tuple):
        return tuple(subst(x, mapping, memo) for x in t)
    if not isinstance(t, T):
        return t
    if t in mapping:
        return mapping[t]
    r = memo.get(t)
    if r is not None:
        return r
    nargs = tuple(subst(a, mapping, memo) for a in t.args)
    if all(a is b for a, b in zip(nargs, t.args)):
        r = t
    else:
        r = rebuild(t.op, nargs)
    memo[t] = r
    return r


# ---- smart constructors -------------------------------------------------------------------------

def ite(c, a, b):
    if c is TRUE:
        return a
    if c is FALSE:
        return b
    if a is b:
        return a
    if c.op == "not":
        return ite(c.args[0], b, a)
    if c.op == "ne":
        return ite(mk("eq", *c.args), b, a)
    if a is TRUE and b is FALSE:
        return c
    if a is FALSE and b is TRUE:
        return not_(c)
    # one branch a boolean literal: the other branch is boolean too, so this is a conjunction / disjunction
    if b is FALSE:
        return and_(c, a)
    if a is FALSE:
        return and_(not_(c), b)
    if a is TRUE:
        return or_(c, b)
    if b is TRUE:
        return or_(not_(c), a)
    # nested ite on the same condition
    if a.op == "ite" and a.args[0] is c:
        a = a.args[1]
    if b.op == "ite" and b.args[0] is c:
        b = b.args[2]
    if a is b:
        return a
    # structural merge of tuples / structs / variants with the same shape (keeps projections simple)
    if a.op == b.op and a.op in ("tuple",) and len(a.args) == len(b.args):
        return mk("tuple", *[ite(c, x, y) for x, y in zip(a.args, b.args)])
    if a.op == "struct" and b.op == "struct" and a.args[0] == b.args[0] and a.args[1] == b.args[1]:
        return mk("struct", a.args[0], a.args[1], *[ite(c, x, y) for x, y in zip(a.args[2:], b.args[2:])])
    if a.op == "variant" and b.op == "variant" and a.args[0] == b.args[0] and len(a.args) == len(b.args):
        return mk("variant", a.args[0], *[ite(c, x, y) for x, y in zip(a.args[1:], b.args[1:])])
    if a.op == "variant_struct" and b.op == "variant_struct" and a.args[0] == b.args[0] and a.args[1] == b.args[1]:
        return mk("variant_struct", a.args[0], a.args[1], *[ite(c, x, y) for x, y in zip(a.args[2:], b.args[2:])])
    return mk("ite", c, a, b)


def not_(a):
    if a is TRUE:
        return FALSE
    if a is FALSE:
        return TRUE
    if a.op == "not":
        return a.args[0]
    if a.op == "ne":
        return mk("eq", *a.args)
    if a.op == "eq":
        return mk("ne", *a.args)
    return mk("not", a)


def and_(a, b):
    if a is FALSE or b is FALSE:
        return FALSE
    if a is TRUE:
        return b
    if b is TRUE:
        return a
    if a is b:
        return a
    if not_(a) is b:
        return FALSE
    return mk("and", a, b)


def or_(a, b):
    if a is TRUE or b is TRUE:
        return TRUE
    if a is FALSE:
        return b
    if b is FALSE:
        return a
    if a is b:
        return a
    if not_(a) is b:
        return TRUE
    return mk("or", a, b)


def conj(cs):
    r = TRUE
    for c in cs:
        r = and_(r, c)
    return r


def eq(a, b):
    if a is b:
        return TRUE
    if is_lit(a) and is_lit(b):
        return TRUE if a.args[0] == b.args[0] else FALSE
    # (y >> k) << k is zero exactly when y >> k is (nothing is shifted out)
    for u, w in ((a, b), (b, a)):
        if w.op == "lit" and w.args[0] == 0 and w.args[0] is not False and u.op == "shl" and u.args[0].op == "shr" and u.args[1] is u.args[0].args[1]:
            return eq(u.args[0], lit(0))
    # an OR of words is zero exactly when every word is; an XOR is zero exactly when its operands agree
    for u, w in ((a, b), (b, a)):
        if w.op == "lit" and w.args[0] == 0 and w.args[0] is not False and isinstance(u, T) and u.op == "bor" and len(u.args) == 2:
            return and_(eq(u.args[0], w), eq(u.args[1], w))
        if w.op == "lit" and w.args[0] == 0 and w.args[0] is not False and isinstance(u, T) and u.op == "bxor" and len(u.args) == 2:
            return eq(u.args[0], u.args[1])
    # a one-bit value compared with 1 is the negation of its comparison with 0
    for u, w in ((a, b), (b, a)):
        if w.op == "lit" and w.args[0] == 1 and w.args[0] is not True and u.op == "band" and any(t.op == "lit" and t.args[0] == 1 and t.args[0] is not True for t in u.args if isinstance(t, T)):
            return not_(eq(u, lit(0)))
    if a.op == "felem" and b.op == "felem" and a.args[0] == b.args[0]:
        return TRUE if a.args[1] == b.args[1] else FALSE      # canonical representatives of one field
    if a.op == "variant" and b.op == "variant":
        if a.args[0] != b.args[0]:
            return FALSE
        return conj([eq(x, y) for x, y in zip(a.args[1:], b.args[1:])])
    if a.op == "tuple" and b.op == "tuple" and len(a.args) == len(b.args):
        return conj([eq(x, y) for x, y in zip(a.args, b.args)])
    # bool == literal
    if b is TRUE:
        return a
    if b is FALSE:
        return not_(a)
    if a is TRUE:
        return b
    if a is FALSE:
        return not_(b)
    # canonical argument order for the symmetric predicate
    if id(a) > id(b) and False:
        a, b = b, a
    return mk("eq", a, b)


def ne(a, b):
    return not_(eq(a, b))


def field(base, name):
    name = str(name)
    if base.op == "struct":
        names = base.args[1]
        if name in names:
            return base.args[2 + names.index(name)]
    if base.op == "tuple" and name.isdigit() and int(name) < len(base.args):
        return base.args[int(name)]
    if base.op == "ite":
        return ite(base.args[0], field(base.args[1], name), field(base.args[2], name))
    if base.op == "update_field" and base.args[1] == name:
        return base.args[2]
    if base.op == "update_field":
        return field(base.args[0], name)
    return mk("field", base, name)


def update_field(base, name, val):
    name = str(name)
    if base.op == "struct":
        names = base.args[1]
        if name in names:
            vals = list(base.args[2:])
            vals[names.index(name)] = val
            return mk("struct", base.args[0], names, *vals)
    if base.op == "tuple" and name.isdigit():
        vals = list(base.args)
        vals[int(name)] = val
        return mk("tuple", *vals)
    return mk("update_field", base, name, val)


def index(base, idx):
    if base.op == "le_bytes_of_u64" and is_lit(idx) and isinstance(idx.args[0], int) and 0 <= idx.args[0] < 8:
        # byte k of a u64 in little-endian order is the 8-bit window at bit 8k
        k = idx.args[0]
        return mk("cast", "u8", intop("band", intop("shr", base.args[0], lit(8 * k)) if k else base.args[0], lit(255)))
    if idx.op == "struct" and idx.args[0] == "core::ops::Range" and idx.args[1] == ("start", "end") and all(is_lit(x) and isinstance(x.args[0], int) for x in idx.args[2:4]):
        a_, b_ = idx.args[2].args[0], idx.args[3].args[0]
        w_ = b_ - a_
        if w_ in (4, 8) and a_ % w_ == 0:
            return mk("chunk", base, w_, a_ // w_)      # bytes[8i..8i+8] is the i-th limb-sized chunk, like [b[8i], .., b[8i+7]]
    if base.op == "bits_le" and idx is lit(0):
        return mk("sign", base.args[0])      # lsb of the canonical little-endian bit decomposition = the sign convention
    if is_lit(idx) and isinstance(idx.args[0], int):
        i = idx.args[0]
        if base.op == "array" and 0 <= i < len(base.args):
            return base.args[i]
        if base.op == "repeat":
            return base.args[0]
        b = base
        while b.op == "store":
            if b.args[1] is idx:
                return b.args[2]
            if is_lit(b.args[1]):
                b = b.args[0]
                continue
            break
        if b.op == "array" and 0 <= i < len(b.args):
            return b.args[i]
        if b.op == "repeat":
            return b.args[0]
        if b is not base:
            return mk("index", b, idx)
    if idx.op == "rangefull":
        return base
    if base.op == "ite":
        return ite(base.args[0], index(base.args[1], idx), index(base.args[2], idx))
    return mk("index", base, idx)


def store(base, idx, val):
    if idx.op == "rangefull":
        return val
    if is_lit(idx) and base.op == "array":
        i = idx.args[0]
        if 0 <= i < len(base.args):
            vals = list(base.args)
            vals[i] = val
            return mk("array", *vals)
    if is_lit(idx) and base.op == "repeat" and isinstance(base.args[1], int) and base.args[1] <= 64:
        vals = [base.args[0]] * base.args[1]
        i = idx.args[0]
        if 0 <= i < len(vals):
            vals[i] = val
            return mk("array", *vals)
    return mk("store", base, idx, val)


def variant(name, *payload):
    return mk("variant", name, *payload)


_COMPLEMENT = {"None": "Some", "Err": "Ok"}


def is_variant(x, name):
    if x.op in ("variant", "variant_struct"):
        return TRUE if x.args[0] == name else FALSE
    if name in _COMPLEMENT:
        # Option / Result have two variants: one canonical spelling of the test
        return not_(is_variant(x, _COMPLEMENT[name]))
    if x.op == "ite":
        return ite(x.args[0], is_variant(x.args[1], name), is_variant(x.args[2], name))
    return mk("is_variant", x, name)


def payload(x, name, i=0):
    if x.op == "variant_struct":
        if x.args[0] == name and 2 + i < len(x.args):
            return x.args[2 + i]
        return mk("bottom")
    if x.op == "variant":
        if x.args[0] == name and 1 + i < len(x.args):
            return x.args[1 + i]
        return mk("bottom")
    if x.op == "ite":
        a, b = x.args[1], x.args[2]
        va, vb = is_variant(a, name), is_variant(b, name)
        if va is FALSE:
            return payload(b, name, i)
        if vb is FALSE:
            return payload(a, name, i)
        return ite(x.args[0], payload(a, name, i), payload(b, name, i))
    return mk("payload", x, name, i)


_INT_BIN = {
    "iadd": lambda a, b: a + b, "isub": lambda a, b: a - b, "imul": lambda a, b: a * b,
    "idiv": lambda a, b: a // b if b else None, "irem": lambda a, b: a % b if b else None,
    "shl": lambda a, b: a << b, "shr": lambda a, b: a >> b, "band": lambda a, b: a & b,
    "bor": lambda a, b: a | b, "bxor": lambda a, b: a ^ b,
}


def intop(op, a, b):
    if op == "irem" and is_lit(b) and isinstance(b.args[0], int) and b.args[0] > 0 and b.args[0] & (b.args[0] - 1) == 0 and not is_lit(a):
        return intop("band", a, lit(b.args[0] - 1))      # x % 2^k == x & (2^k - 1) for the unsigned integers used here
    def _is_int(t_, v_):
        return is_lit(t_) and t_.args[0] == v_ and not isinstance(t_.args[0], bool)
    # neutral elements
    if op in ("shr", "shl", "iadd", "isub", "bor", "bxor") and _is_int(b, 0):
        return a
    if op in ("iadd", "bor", "bxor") and _is_int(a, 0):
        return b
    if op == "band" and (_is_int(a, 0) or _is_int(b, 0)):
        return lit(0)
    if op == "imul":
        if is_lit(b) and b.args[0] == 1 and not isinstance(b.args[0], bool):
            return a
        if is_lit(a) and a.args[0] == 1 and not isinstance(a.args[0], bool):
            return b
    # selection by mask arithmetic: mask(c) is the all-ones word of its type when c holds and 0 otherwise
    if op == "band":
        for m_, y in ((a, b), (b, a)):
            if isinstance(m_, T) and m_.op == "mask":
                return ite(m_.args[0], y, lit(0))
    if op in ("bxor", "bor", "band") and isinstance(a, T) and isinstance(b, T):
        # x ^ (x ^ y) == y
        if op == "bxor":
            for u, w in ((a, b), (b, a)):
                if w.op == "bxor" and (w.args[0] is u or w.args[1] is u):
                    return w.args[1] if w.args[0] is u else w.args[0]
        if a.op == "ite" and b.op == "ite" and a.args[0] is b.args[0]:
            return ite(a.args[0], intop(op, a.args[1], b.args[1]), intop(op, a.args[2], b.args[2]))
        for u, w, left in ((a, b, False), (b, a, True)):
            if w.op == "ite" and any(_is_int(br, 0) for br in w.args[1:]) and u.op != "ite":
                f_ = (lambda x: intop(op, x, u)) if left else (lambda x: intop(op, u, x))
                return ite(w.args[0], f_(w.args[1]), f_(w.args[2]))
    if is_lit(a) and is_lit(b) and isinstance(a.args[0], int) and isinstance(b.args[0], int) \
            and not isinstance(a.args[0], bool) and not isinstance(b.args[0], bool):
        r = _INT_BIN[op](a.args[0], b.args[0])
        if r is not None:
            return lit(r)
    if op in ("band", "bor", "bxor") and isinstance(a.args[0] if is_lit(a) else None, bool) and is_lit(b):
        x, y = a.args[0], b.args[0]
        return lit({"band": x and y, "bor": x or y, "bxor": x != y}[op])
    return mk(op, a, b)


def cmp(op, a, b):
    if is_lit(a) and is_lit(b):
        x, y = a.args[0], b.args[0]
        return lit({"lt": x < y, "le": x <= y, "gt": x > y, "ge": x >= y}[op])
    # one canonical spelling per order relation (total orders):  a < b  ==  !(a >= b),   a <= b  ==  !(a > b)
    if op == "lt":
        return not_(mk("ge", a, b))
    if op == "le":
        return not_(mk("gt", a, b))
    return mk(op, a, b)


def bit_select(t, bit):
    """t = `if bit is set {a} else {b}` for a one-bit integer term `bit`, in any of its spellings and orientations
    (bit == 1, bit != 0, !(bit == 0), branches swapped under the negated test): returns (a, b) or None"""
    if not (isinstance(t, T) and t.op == "ite"):
        return None
    c, a, b = t.args
    set_forms = (eq(bit, lit(1)), ne(bit, lit(0)), not_(eq(bit, lit(0))))
    clr_forms = (eq(bit, lit(0)), ne(bit, lit(1)), not_(eq(bit, lit(1))))
    if any(c is f for f in set_forms):
        return (a, b)
    if any(c is f for f in clr_forms):
        return (b, a)
    return None


def assume(t, c, truth, _memo=None):
    """t simplified under the assumption that condition c has the given truth value"""
    if _memo is None:
        _memo = {}
    if not isinstance(t, T):
        return t
    if t is c:
        return TRUE if truth else FALSE
    if t.op == "ne" and c.op == "eq" and ((t.args[0] is c.args[0] and t.args[1] is c.args[1]) or (t.args[0] is c.args[1] and t.args[1] is c.args[0])):
        return FALSE if truth else TRUE
    if t.op == "eq" and c.op == "ne" and ((t.args[0] is c.args[0] and t.args[1] is c.args[1]) or (t.args[0] is c.args[1] and t.args[1] is c.args[0])):
        return FALSE if truth else TRUE
    k = id(t)
    if k in _memo:
        return _memo[k]
    if not t.args:
        _memo[k] = t
        return t
    new = [assume(a, c, truth, _memo) for a in t.args]
    if all(x is y for x, y in zip(new, t.args)):
        r = t
    else:
        r = rebuild(t.op, new)
    _memo[k] = r
    return r


def first_branch_cond(v):
    """the condition of the outermost ITE found in v (v itself, or left to right in the components of tuples)"""
    if not isinstance(v, T):
        return None
    if v.op == "ite":
        return v.args[0]
    if v.op == "tuple":
        for a in v.args:
            c = first_branch_cond(a)
            if c is not None:
                return c
    return None


def rebuild(op, args):
    """re-apply the smart constructor for op (used by subst)"""
    if op == "ite":
        return ite(*args)
    if op == "not":
        return not_(*args)
    if op == "and":
        return and_(*args)
    if op == "or":
        return or_(*args)
    if op == "eq":
        return eq(*args)
    if op == "ne":
        return ne(*args)
    if op == "field":
        return field(*args)
    if op == "index":
        return index(*args)
    if op == "store":
        return store(*args)
    if op == "is_variant":
        return is_variant(*args)
    if op == "payload":
        return payload(*args)
    if op in _INT_BIN:
        return intop(op, *args)
    if op in ("lt", "le", "gt", "ge"):
        return cmp(op, *args)
    if op == "unmont" and isinstance(args[0], T) and args[0].op == "mont":
        return args[0].args[0]
    if op == "call" and args and args[0] == "core::num::<impl u64>::pow" and len(args) == 3 and is_lit(args[1]) and is_lit(args[2]):
        return lit(args[1].args[0] ** args[2].args[0])
    return mk(op, *args)
