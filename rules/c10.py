"""C10 — field arithmetic is exact arithmetic mod p (wrapper / forwarding layer; primitives trusted).

FWD [S]: every operator / iterator impl of fields/*/ops.rs, every arithmetic method of the arkworks glue and of
both wrappers is interpreted down to the backend primitive (arkworks Fp operator resp. fiat function of the *same*
field) and must denote the right ring operation on its own operands, in its own order.
IDENT [S]: Sum folds from 0 and Product from 1 (by evaluated value).  EXP [S]: exponentiation consumes the whole
exponent slice with a correct square-and-multiply template.  DOM [S]: Montgomery-vs-canonical typestate at every
raw-limb constructor.  SELECT [S]: conditional_select is limb-wise ITE(c, b, a) over all limbs; ct_eq covers all limbs.
INV [S]: inverse(0) is None; the Bernstein-Yang driver uses this field's fiat functions and iteration count.
"""
import re
from . import terms as Tm, consts as K
from .terms import mk, lit, field, TRUE, FALSE, variant, is_variant, payload
from . import curve as C
from .curve import Cfg
from .common import norm_path
from .summaries import sort_of, felem
from . import engine as E, summaries as S
from . import poly as P

FIELDS = ("fq", "fr", "fp")
LIMBS64 = {"fq": 4, "fr": 4, "fp": 6}


def wrapper_ty(cfg, f):
    be = "u64" if cfg.name in ("A", "R") else "u32"
    return "fields::%s::%s::wrapper::F%s" % (f, be, f[1])


def me_ty(f):
    return "fields::%s::u32::fiat::F%sMontgomeryDomainFieldElement" % (f, f[1])


def field_arg(ty, name):
    """structured argument for a parameter of crate field type: wrapper{0: backend value of element $name}"""
    t = E.strip_ref(E.strip_lt(ty))
    m = re.match(r"^fields::(fq|fr|fp)::u(64|32)::wrapper::F[qrp]$", t)
    if not m:
        return mk("param", name)
    f, be = m.group(1), m.group(2)
    e = mk("param", name)
    if be == "64":
        return mk("struct", t, ("0",), e)
    return mk("struct", t, ("0",), mk("struct", me_ty(f), ("0",), mk("mont", e)))


def den(t):
    """element denoted by a wrapper value"""
    if t.op == "struct" and re.match(r"^fields::f[qrp]::u(64|32)::wrapper::F[qrp]$", t.args[0]) and t.args[1] == ("0",):
        x = t.args[2]
        if x.op == "struct" and "MontgomeryDomainFieldElement" in x.args[0] and "Non" not in x.args[0]:
            raw = x.args[2]
            return raw.args[0] if raw.op == "mont" else mk("unmont", raw)
        return x
    if t.op == "ite":
        return Tm.ite(t.args[0], den(t.args[1]), den(t.args[2]))
    if t.op == "variant":
        return variant(t.args[0], *[den(x) for x in t.args[1:]])
    return t


def sentinel_summary(cfg):
    loc = {}
    for p in cfg.prog.bodies:
        if p.endswith("::is_sentinel"):
            loc[p] = lambda ctx: FALSE
    return loc


def check_sentinel(rep, cfg):
    """the other rules read `is_sentinel()` as false on field elements; that is justified only if the predicate compares the operand's raw
    limbs with a constant whose raw (Montgomery) limbs are not below the modulus - a limb pattern no reduced element has"""
    n = 0
    for p in sorted(cfg.prog.bodies):
        if not p.endswith("::is_sentinel"):
            continue
        m = re.search(r"fields::(fq|fr|fp)::u(64|32)::wrapper", p)
        if not m:
            continue
        n += 1
        f = m.group(1)
        out, _ = run_deep(cfg, p, {})
        S_ = mk("param", "self")
        v = out.value
        ok, why = False, Tm.show(v, maxdepth=6)
        if v.op == "eq":
            for a_, b_ in ((v.args[0], v.args[1]), (v.args[1], v.args[0])):
                raws = [u for u in Tm.subterms(b_) if u.op == "felem_raw"]
                if len(raws) == 1 and raws[0].args[0] == f and Tm.subst(b_, {raws[0]: S_}) is a_:
                    val = raws[0].args[1]
                    ok = isinstance(val, int) and val >= K.MODULI[f]
                    why = "compares self's raw limbs with the constant %#x, which is %s the modulus" % (val, "not below" if ok else "BELOW")
        rep.ob("SENTINEL/%s/%s" % (cfg.name, norm_path(p)), ok and not out.unmodelled,
               "is_sentinel must be `raw limbs of self == raw limbs of a constant that is not a reduced residue` (every other rule reads it as false on field elements): %s" % why,
               where=cfg.where(p))
    return n


def with_inverse_summary(cfg, loc):
    """cfg M: the divstep inversion (while loops over opaque fiat state) is summarised as the backend inverse when
    operators that use it (Div) are analysed; the routine itself is the subject of the INV rule"""
    loc = dict(loc)
    if cfg.name != "M":
        return loc
    for f in FIELDS:
        wt = wrapper_ty(cfg, f)

        def mkinv(f=f, wt=wt):
            def summ(ctx):
                e = den(ctx.args[0])
                some = mk("struct", wt, ("0",), mk("struct", me_ty(f), ("0",), mk("mont", mk("inv", e))))
                return Tm.ite(Tm.eq(e, felem(f, 0)), variant("None"), variant("Some", some))
            return summ
        loc[wt + "::inverse"] = mkinv()
    return loc


def run_deep(cfg, path, loc):
    b = cfg.prog.bodies[path]
    names = [p.get("name", "p%d" % i) if p.get("k") == "Bind" else "p%d" % i for i, p in enumerate(b.get("params", []))]
    args = [field_arg(t, n) for t, n in zip(b.get("inputs", []), names)]
    key = (path, "deep+args")
    if key in cfg.cache:
        return cfg.cache[key], names
    summ = S.Summaries(abstract_fields=False, abstract_glue=False, local=loc)
    I = E.Interp(cfg.prog, summ)
    out = I.run(path, args=args)
    cfg.cache[key] = out
    return out, names


OPS = {"core::ops::Add": ("add", "add"), "core::ops::Sub": ("sub", "sub"), "core::ops::Mul": ("mul", "mul"), "core::ops::Div": ("div", "div"),
       "core::ops::Neg": ("neg", "neg"), "core::ops::AddAssign": ("add_assign", "add="), "core::ops::SubAssign": ("sub_assign", "sub="),
       "core::ops::MulAssign": ("mul_assign", "mul="), "core::ops::DivAssign": ("div_assign", "div="),
       "core::iter::Sum": ("sum", "sum"), "core::iter::Product": ("product", "product")}


def expected(kind, f, l, r):
    if kind in ("add", "add="):
        return [mk("add", l, r)]
    if kind in ("sub", "sub="):
        return [mk("sub", l, r)]
    if kind in ("mul", "mul="):
        return [mk("mul", l, r)]
    if kind in ("div", "div="):
        return [mk("mul", l, mk("inv", r))]
    if kind == "neg":
        return [mk("neg", l), mk("sub", felem(f, 0), l)]
    return []


def check_ops(rep, cfg, loc):
    n = 0
    for path, b in sorted(cfg.prog.bodies.items()):
        tr = b.get("impl_trait_def")
        if tr not in OPS:
            continue
        st = E.strip_lt(b.get("impl_self", ""))
        m = re.match(r"^&?(?:mut )?fields::(fq|fr|fp)::u(?:64|32)::wrapper::F[qrp]$", st)
        if not m or not path.startswith("fields::"):
            continue
        f = m.group(1)
        meth, kind = OPS[tr]
        if path.split("::")[-1] != meth:
            continue
        n += 1
        out, names = run_deep(cfg, path, loc)
        key = "FWD/%s/%s" % (cfg.name, norm_path(path))
        ps = [mk("param", x) for x in names]
        if kind in ("sum", "product"):
            got = out.value
            ok = False
            why = Tm.show(got, maxdepth=6)
            if got.op == "proj" and got.args[0].op == "fold":
                it, item, accs, inits, nexts = got.args[0].args
                ident = felem(f, 0 if kind == "sum" else 1)
                i0 = den(inits[0])
                opn = "add" if kind == "sum" else "mul"
                # the fold function receives wrapper values for acc / item
                nx = den(Tm.subst(nexts[0], {accs[0]: field_arg(wrapper_ty(cfg, f), "ACC"), item: field_arg(wrapper_ty(cfg, f), "ITEM")}))
                step_ok = nx is mk(opn, mk("param", "ACC"), mk("param", "ITEM")) or nx is mk(opn, mk("param", "ITEM"), mk("param", "ACC"))
                if not step_ok:
                    nx2 = rerun_fold_step(cfg, path, loc, f)
                    step_ok = nx2 is True
                ok = (it is ps[0]) and i0 is ident and step_ok
                why = "iterates the whole iterator: %s; starts from %s (required %s); step is %s: %s" % (it is ps[0], Tm.show(i0), Tm.show(ident), opn, step_ok)
            rep.ob(key.replace("FWD/", "IDENT/"), ok, "%s must be FOLD(iter, %s, %s): %s" % (meth, "0" if kind == "sum" else "1", "acc + x" if kind == "sum" else "acc * x", why),
                   where=cfg.where(path), sample={"obligation": key, "term": Tm.show(got, maxdepth=4)})
            continue
        l = ps[0]
        r = ps[1] if len(ps) > 1 else None
        got = den(out.outs.get(0, mk("bottom"))) if kind.endswith("=") else den(out.value)
        wants = expected(kind, f, l, r)
        ok = any(got is w for w in wants)
        if not ok and kind in ("neg",):
            ok = cfg.norm.pkey(cfg.norm.poly(got)) == cfg.norm.pkey(cfg.norm.poly(wants[0])) if f == "fq" else ok
        if out.unmodelled:
            ok = False
        rep.ob(key, ok, "%s::%s must denote %s on its own operands in its own order; got %s%s" % (
            tr.split("::")[-1], meth, Tm.show(wants[0]), Tm.show(got, maxdepth=6), ("; unmodelled: " + "; ".join(out.unmodelled[:2])) if out.unmodelled else ""),
            where=cfg.where(path), sample={"obligation": key, "expected": Tm.show(wants[0]), "got": Tm.show(got, maxdepth=4)})
        if kind.startswith("div"):
            pan = [s for pc, s in out.panics if s.get("kind") in ("unwrap", "expect")]
            rep.ob(key + ":div0", len(pan) >= 1, "division by zero must panic through inverse().unwrap() (documented); panic sites found: %d" % len(pan), where=cfg.where(path), nontrivial=False)
    return n


def rerun_fold_step(cfg, path, loc, f):
    return False


# methods of the wrappers and of the arkworks glue (Field / Zero / One) --------------------------------------
METHODS = {
    "square": lambda f, s: [mk("mul", s, s)],
    "double": lambda f, s: [mk("add", s, s)],
    "add": None, "sub": None, "mul": None, "neg": None,
}


def check_methods(rep, cfg, loc):
    n = 0
    for path, b in sorted(cfg.prog.bodies.items()):
        st = E.strip_lt(b.get("impl_self", ""))
        m = re.match(r"^fields::(fq|fr|fp)::u(64|32)::wrapper::F[qrp]$", st)
        if not m or not path.startswith("fields::"):
            continue
        f = m.group(1)
        if (m.group(2) == "64") != (cfg.name in ("A", "R")):
            continue       # the other backend's wrapper is compiled but is not this build's field
        name = path.split("::")[-1]
        tr = b.get("impl_trait_def", "")
        if tr and tr not in ("ark_ff::Field", "ark_ff::Zero", "ark_ff::One", "core::default::Default"):
            continue
        S_ = mk("param", "self")
        O_ = mk("param", "other")
        want = None
        post = False
        if name in ("add", "sub", "mul") and not tr:
            want = [mk(name, S_, O_)]
        elif name == "neg" and not tr:
            want = [mk("neg", S_)]
        elif name == "square":
            want = [mk("mul", S_, S_)]
        elif name == "double":
            want = [mk("add", S_, S_)]
        elif name in ("square_in_place", "double_in_place", "neg_in_place"):
            post = True
            want = {"square_in_place": [mk("mul", S_, S_)], "double_in_place": [mk("add", S_, S_)],
                    "neg_in_place": [mk("neg", S_), mk("sub", felem(f, 0), S_)]}[name]
        elif name == "is_zero" and tr == "ark_ff::Zero":
            want = [Tm.eq(S_, felem(f, 0))]
        elif name == "is_one" and tr == "ark_ff::One":
            want = [Tm.eq(S_, felem(f, 1))]
        elif name == "zero" and tr == "ark_ff::Zero":
            want = [felem(f, 0)]
        elif name == "one" and tr == "ark_ff::One":
            want = [felem(f, 1)]
        elif name == "default" and tr == "core::default::Default":
            want = [felem(f, 0)]      # arkworks' convention (Fp::default() is zero); generic code starts sums and buffers from it
        else:
            continue
        n += 1
        out, names = run_deep(cfg, path, loc)
        got = den(out.outs.get(0, mk("bottom"))) if post else den(out.value)
        got = simplify_eq(got, f)
        ok = any(got is w for w in want) and not out.unmodelled
        key = "FWD/%s/%s" % (cfg.name, norm_path(path))
        rep.ob(key, ok, "%s must denote %s; got %s%s" % (name, Tm.show(want[0]), Tm.show(got, maxdepth=6), ("; unmodelled: " + "; ".join(out.unmodelled[:2])) if out.unmodelled else ""),
               where=cfg.where(path), sample={"obligation": key, "expected": Tm.show(want[0]), "got": Tm.show(got, maxdepth=4)})
    return n


FIELD_TRAIT_COVER = {
    # method of an arkworks field trait implemented by the wrappers -> the rule that covers it ("here" = check_field_trait_methods below)
    "double": "FWD(methods)", "double_in_place": "FWD(methods)", "neg_in_place": "FWD(methods)", "square": "FWD(methods)", "square_in_place": "FWD(methods)",
    "zero": "FWD(methods)", "is_zero": "FWD(methods)", "one": "FWD(methods)", "is_one": "FWD(methods)", "inverse": "INV", "legendre": "C09 LEGENDRE",
    "sqrt": "C09 SQRT", "sqrt_in_place": "C09 SQRT", "from_bigint": "C11 CANON", "into_bigint": "C11 CONV", "from_be_bytes_mod_order": "C11 RED",
    "from_le_bytes_mod_order": "C11 RED",
    "from_random_bytes_with_flags": "sampling helper (reduces arbitrary bytes): neither an arithmetic form of C10 nor a serialisation of C11",
    "inverse_in_place": "here", "frobenius_map_in_place": "here", "characteristic": "here", "extension_degree": "here", "from_base_prime_field": "here",
    "from_base_prime_field_elems": "here", "to_base_prime_field_elements": "here", "sum_of_products": "here",
}


def check_field_trait_methods(rep, cfg, loc):
    """every function the wrappers define in their impls of ark_ff::{Field, PrimeField, FftField, Zero, One} is either covered by a named rule or
    interpreted here; a method outside the table (a new override of an arkworks default) fails closed"""
    n = 0
    for im in cfg.facts["impls"]:
        td = im.get("trait_def") or ""
        if td not in ("ark_ff::Field", "ark_ff::PrimeField", "ark_ff::FftField", "ark_ff::Zero", "ark_ff::One"):
            continue
        m = re.match(r"^fields::(fq|fr|fp)::u(64|32)::wrapper::F[qrp]$", E.strip_lt(im.get("self", "")))
        if not m or (m.group(2) == "64") != (cfg.name in ("A", "R")):
            continue
        f = m.group(1)
        p = K.MODULI[f]
        for it in im["items"]:
            if it["kind"] != "Fn":
                continue
            n += 1
            name, path = it["name"], it["path"]
            how = FIELD_TRAIT_COVER.get(name)
            key = "COVER/%s/<%s as %s>::%s" % (cfg.name, f, td.split("::")[-1], name)
            if how is None:
                rep.ob(key, False, "the wrapper defines %s::%s but no rule interprets it (an override of an arkworks default or a new trait method): verify it and add a "
                                   "rule, or drop it" % (td, name), where=cfg.where(path), nontrivial=False)
                continue
            if how != "here":
                rep.ob(key, True, "covered by " + how, nontrivial=False)
                continue
            out, names = run_deep(cfg, path, loc)
            v = den(out.value)
            post = den(out.outs.get(0, mk("bottom")))
            S_ = mk("param", "self")
            ok, want = False, ""
            if name == "inverse_in_place":
                want = "None on 0, else Some and *self := self^-1"
                ok = v is Tm.ite(Tm.eq(S_, felem(f, 0)), variant("None"), variant("Some", mk("inv", S_))) and post is Tm.ite(Tm.eq(S_, felem(f, 0)), S_, mk("inv", S_))
            elif name == "frobenius_map_in_place":
                want = "the identity map on a prime field"
                ok = post is S_
            elif name == "characteristic":
                want = "the limbs of the modulus"
                ok = v.op == "array" and all(Tm.is_lit(a) for a in v.args) and sum(a.args[0] << (64 * i) for i, a in enumerate(v.args)) == p
            elif name == "extension_degree":
                want = "1"
                ok = v is lit(1)
            elif name == "from_base_prime_field":
                want = "its argument"
                ok = v is mk("param", names[0]) if names else False
            elif name == "from_base_prime_field_elems":
                want = "Some(elems[0]) iff exactly one element"
                e_ = mk("param", names[0]) if names else mk("bottom")
                ok = v is Tm.ite(Tm.eq(mk("len", e_), lit(1)), variant("Some", Tm.index(e_, lit(0))), variant("None"))
            elif name == "to_base_prime_field_elements":
                want = "the one-element sequence [self]"
                ok = v.op == "array" and len(v.args) == 1 and den(v.args[0]) is S_
            elif name == "sum_of_products":
                want = "the fold  sum' = sum + a[i]*b[i]  over i in 0..T from 0"
                a_, b_ = (mk("param", x) for x in names[:2]) if len(names) >= 2 else (mk("bottom"), mk("bottom"))
                if v.op == "proj" and v.args[0].op == "fold":
                    itr, item, accs, inits, nexts = v.args[0].args
                    rng = dict(zip(itr.args[1], itr.args[2:])) if itr.op == "struct" and itr.args[0] == "core::ops::Range" else {}
                    N = P.Norm(p)

                    def unwrap(t, memo={}):
                        # wrapper{backend x} and its .0 projection both denote the element x
                        if not isinstance(t, Tm.T):
                            return t
                        if t.op == "struct" and re.search(r"wrapper::F[qrp]$", str(t.args[0])) and t.args[1] == ("0",):
                            return unwrap(t.args[2])
                        if t.op == "field" and t.args[1] == "0":
                            return unwrap(t.args[0])
                        if not t.args:
                            return t
                        na = tuple(unwrap(a) if isinstance(a, Tm.T) else a for a in t.args)
                        return t if all(x is y for x, y in zip(na, t.args)) else Tm.rebuild(t.op, list(na))
                    step = mk("add", unwrap(accs[0]), mk("mul", Tm.index(a_, item), Tm.index(b_, item)))
                    ok = rng.get("start") is lit(0) and rng.get("end") is not None and rng["end"].op == "constparam" and len(accs) == 1 \
                        and unwrap(inits[0]) is felem(f, 0) and N.pkey(N.poly(unwrap(nexts[0]))) == N.pkey(N.poly(step))
            rep.ob(key, ok and not out.unmodelled, "%s must be %s; got %s / post-state %s" % (name, want, Tm.show(v, maxdepth=5), Tm.show(post, maxdepth=4)),
                   where=cfg.where(path), nontrivial=(name in ("inverse_in_place", "sum_of_products")))
    return n


def _conjuncts(t):
    if t.op == "and":
        return _conjuncts(t.args[0]) + _conjuncts(t.args[1])
    return [t]


def fold_limb_tests(cs, f):
    """in a list of conjuncts, a complete set of tests `limb_k(mont(d)) == 0` over every 32-bit limb k of the field is d == 0
    (the Montgomery map is a bijection fixing 0); with d = a - b that is a == b.  The single test replaces the set at the position
    of its last member; an incomplete set is left as it is."""
    nl = LIMBS64[f] * 2
    groups = {}
    for i, c in enumerate(cs):
        if c.op == "eq" and c.args[1] is lit(0) and c.args[0].op == "index" and c.args[0].args[0].op == "mont" and Tm.is_lit(c.args[0].args[1]):
            groups.setdefault(c.args[0].args[0].args[0], {})[c.args[0].args[1].args[0]] = i
    out = list(cs)
    for d, ks in groups.items():
        if sorted(ks) == list(range(nl)):
            last = max(ks.values())
            a, b = (d.args if d.op == "sub" else (d, felem(f, 0)))
            out[last] = Tm.eq(a, b)
            for k, i in ks.items():
                if i != last:
                    out[i] = None
    return [c for c in out if c is not None]


def simplify_eq(t, f):
    """u32 equality: nonzero(sub(a,b)) == 0  <=>  a == b; likewise the conjunction of all per-limb zero tests of a - b"""
    if t.op == "and":
        cs = fold_limb_tests(_conjuncts(t), f)
        r = cs[0]
        for c in cs[1:]:
            r = Tm.and_(r, c)
        return r
    if t.op == "not" and t.args[0].op == "and":
        return Tm.not_(simplify_eq(t.args[0], f))
    if t.op == "eq" and t.args[1] is lit(0) and t.args[0].op == "ite":
        x = t.args[0]
        # ite(eq(sub(a,b),0), 0, nonzero_word(..)) == 0
        if x.args[1] is lit(0) and x.args[2].op == "nonzero_word" and x.args[0].op == "eq":
            d = x.args[0].args[0]
            if d.op == "sub":
                a, b = d.args
                if b.op == "felem" and b.args[1] == 0:
                    return Tm.eq(a, b)
                return Tm.eq(a, b)
    return t


# ---- inverse ---------------------------------------------------------------------------------------------------

def check_inverse(rep, cfg, loc):
    for f in FIELDS:
        wt = wrapper_ty(cfg, f)
        p = wt + "::inverse"
        if p not in cfg.prog.bodies:
            rep.fail_closed("inverse of %s not found" % wt)
            continue
        out, _ = run_deep(cfg, p, loc)
        S_ = mk("param", "self")
        flows = C.expand_flows(out.flows)
        key = "INV/%s/%s::inverse" % (cfg.name, f)
        none_flows = [(pc, v) for pc, v in flows if v is variant("None")]
        some_flows = [(pc, v) for pc, v in flows if v.op == "variant" and v.args[0] == "Some"]
        zero = felem(f, 0)

        def is_zero_guard(c):
            c = simplify_eq(c, f)
            return c is Tm.eq(S_, zero) or c is Tm.eq(zero, S_)
        # a guard spelled limb by limb arrives as separate path conjuncts: fold a complete set back into the one test it is
        none_flows = [(fold_limb_tests(list(pc), f), v) for pc, v in none_flows]
        some_flows = [(fold_limb_tests(list(pc), f), v) for pc, v in some_flows]
        g_ok = any(pc and is_zero_guard(pc[-1]) for pc, v in none_flows) and all(is_zero_guard(pc[-1]) for pc, v in none_flows if pc)
        s_ok = bool(some_flows) and all(any(simplify_eq(c, f) is Tm.not_(Tm.eq(S_, zero)) or simplify_eq(Tm.not_(c), f) is Tm.eq(S_, zero) for c in pc) for pc, v in some_flows)
        rep.ob(key + ":zero", g_ok and s_ok,
               "inverse must return None exactly when self == 0 (and Some only under self != 0); None-guards: %s; Some-guards: %s" % (
                   [Tm.show(simplify_eq(pc[-1], f), maxdepth=4) for pc, v in none_flows if pc], [[Tm.show(simplify_eq(c, f), maxdepth=3) for c in pc] for pc, v in some_flows][:2]),
               where=cfg.where(p))
        if cfg.name in ("A", "R"):
            vals = {den(v.args[1]) for pc, v in some_flows}
            rep.ob(key + ":value", vals == {mk("inv", S_)}, "Some(inverse) must carry the backend inverse of self; got %s" % [Tm.show(v, maxdepth=4) for v in vals], where=cfg.where(p))
        else:
            # Bernstein-Yang driver: right field's fiat functions, iteration count from this field's bit size
            calls = [(a[0].args[0], a[1].args[0], a[2].args[0]) for pc, kind, a, site in out.effects if kind == "fiat_call"]
            fns = [c[2] for c in calls]
            wrong = sorted({c[1] for c in calls if c[1] != f or c[0] != f})
            need = ["from_montgomery", "msat", "divstep", "opp", "selectznz", "divstep_precomp", "mul"]
            miss = [x for x in need if x not in fns]
            rep.ob(key + ":fiat", not wrong and not miss,
                   "the divstep inversion of %s must use this field's fiat functions %s; foreign-field calls: %s; missing: %s" % (f, need, wrong, miss), where=cfg.where(p))
            ci = cfg.prog.consts.get(p + "::I")
            bits = K.MODULI[f].bit_length()
            wantI = (49 * bits + 57) // 17
            ok_df, why_df = by_dataflow(out, f, S_, wantI, some_flows)
            rep.ob(key + ":dataflow", ok_df, "Bernstein-Yang inversion: (d,f,g,v,r) must start at (1, msat, self's canonical limbs zero-extended, 0, R) and be carried "
                   "through I divsteps, and the result must be precomp * (v negated when f's sign bit is set): %s" % why_df, where=cfg.where(p))
            rep.ob(key + ":iterations", ci is not None and K.vint(ci["value"]["val"]) == wantI,
                   "divstep iteration count I must be (49*%d+57)/17 = %d for this field; evaluated constant: %s" % (bits, wantI, ci["value"]["val"].get("int") if ci else None),
                   where=ci["sp"] if ci else cfg.where(p), sample={"obligation": key + ":iterations", "I": wantI})


def by_dataflow(out, f, S_, wantI, some_flows):
    """the data flow of the safegcd driver around fiat's divstep (the loop is not unrolled: one iteration's state transformer is judged)"""
    N32 = LIMBS64[f] * 2
    ws = [(a, site) for pc, kind, a, site in out.effects if kind == "while_state" and any(po is not None and any(u.op == "fiat_divstep" for u in Tm.subterms(po)) for po in a[2])]
    # the same loop written as `for _ in 0..K { .. }` arrives as a symbolic fold: inits / carried symbols / next values are the same three rows
    fold_passes = None
    fold_term = None
    if not ws:
        for pc, kind, a, site in out.effects:
            if kind == "loop" and a and a[0].op == "fold" and any(u.op == "fiat_divstep" for nx in a[0].args[4] for u in Tm.subterms(nx)):
                it, item, accs, inits, nexts = a[0].args
                rng = dict(zip(it.args[1], it.args[2:])) if it.op == "struct" and it.args[0] == "core::ops::Range" else {}
                if rng.get("start") is lit(0) and Tm.is_lit(rng.get("end")):
                    fold_passes = rng["end"].args[0]
                    fold_term = a[0]
                    ws.append(((tuple(inits), tuple(accs), tuple(nexts)), {"pc_after": None}))
    if len(ws) != 1:
        return False, "expected exactly one loop around divstep, found %d" % len(ws)
    (entry, syms, post), site = ws[0]
    if any(po is None for po in post):
        return False, "the loop body does not fall through"
    ent, pst = dict(zip(syms, entry)), dict(zip(syms, post))
    firsts = [u for po in post for u in Tm.subterms(po) if u.op == "fiat_divstep" and all(x in ent for x in u.args[1:])]
    firsts = list({id(u): u for u in firsts}.values())
    if len(firsts) != 1 or len(set(firsts[0].args[1:])) != 5 or firsts[0].args[0] != f:
        return False, "no single divstep applied to the five carried values (d, f, g, v, r)"
    D1 = firsts[0]
    st = list(D1.args[1:])
    D2 = mk("fiat_divstep", f, *[mk("out", D1, k) for k in range(5)])
    two = all(pst[st[k]] is mk("out", D2, k) for k in range(5))
    one = all(pst[st[k]] is mk("out", D1, k) for k in range(5))
    if not (two or one):
        return False, "after one pass of the loop the carried (d, f, g, v, r) must be the outputs 0..4 of divstep (applied once or twice) in this order; got %s" % [Tm.show(pst[x], maxdepth=2) for x in st]
    step = 2 if two else 1
    if fold_passes is not None:
        if fold_passes * step != wantI - wantI % step:
            return False, "the loop makes %d passes of %d divstep(s); %d steps are required" % (fold_passes, step, wantI - wantI % step)
    ctr = [c for c in syms if ent[c] is lit(0) and pst[c] is Tm.intop("iadd", c, lit(step))]
    bound = [c_.args[0].args[1] for c_ in (site.get("pc_after") or ()) if c_.op == "not" and c_.args[0].op == "ge" and c_.args[0].args[0] in ctr and Tm.is_lit(c_.args[0].args[1])]
    want_bound = wantI - wantI % step
    if fold_passes is None and (len(bound) != 1 or bound[0].args[0] != want_bound):
        return False, "the loop must run while a counter starting at 0 and advancing by %d is below %d; counters %s, bounds %s" % (step, want_bound, [Tm.show(c) for c in ctr], [Tm.show(b) for b in bound])
    d0, f0, g0, v0, r0 = [ent[x] for x in st]

    def zeros(t, n):
        return (t.op == "repeat" and t.args[0] is lit(0) and t.args[1] == n) or (t.op == "array" and len(t.args) == n and all(x is lit(0) for x in t.args))

    def self_limb(t, k):
        if not (t.op == "index" and t.args[1] is lit(k)):
            return False
        b = t.args[0]
        if b.op == "struct" and len(b.args) == 3:
            b = b.args[2]
        return b is mk("canon32", S_)
    if d0 is not lit(1):
        return False, "d must start at 1; got %s" % Tm.show(d0)
    if f0 is not mk("fiat_msat", f):
        return False, "f must start at msat() (the modulus); got %s" % Tm.show(f0, maxdepth=3)
    def whole_self(t):
        if t.op == "struct" and len(t.args) == 3:
            t = t.args[2]
        return t is mk("canon32", S_)
    g_copy = (g0.op == "store" and zeros(g0.args[0], N32 + 1) and g0.args[1] is mk("struct", "core::ops::RangeTo", ("end",), lit(N32)) and whole_self(g0.args[2]))
    if not g_copy and not (g0.op == "array" and len(g0.args) == N32 + 1 and all(self_limb(g0.args[k], k) for k in range(N32)) and g0.args[N32] is lit(0)):
        return False, "g must start as the %d canonical (non-Montgomery) limbs of self followed by a zero limb; got %s" % (N32, Tm.show(g0, maxdepth=3))
    if not zeros(v0, N32):
        return False, "v must start at 0; got %s" % Tm.show(v0, maxdepth=3)
    if r0 is not mk("mont", felem(f, 1)):
        return False, "r must start at the Montgomery form of 1; got %s" % Tm.show(r0, maxdepth=3)
    if wantI % step:
        D3 = D1
        Vf, Ff = mk("out", D3, 3), mk("out", D3, 1)
    else:
        Vf, Ff = st[3], st[1]
    if fold_term is not None:
        # after a fold the carried values are its projections
        after = {sy: mk("proj", fold_term, k) for k, sy in enumerate(syms)}
        Vf, Ff = Tm.subst(Vf, after), Tm.subst(Ff, after)
    sbit = mk("cast", "u8", Tm.intop("band", Tm.intop("shr", Tm.index(Ff, lit(N32)), lit(31)), lit(1)))
    negv = mk("mont", mk("neg", mk("unmont", Vf)))
    want = mk("mont", mk("mul", mk("unmont", Tm.ite(Tm.ne(sbit, lit(0)), negv, Vf)), mk("unmont", mk("fiat_divstep_precomp", f))))
    vals = []
    for pc, v in some_flows:
        x = v.args[1]
        while x.op == "struct" and len(x.args) == 3:
            x = x.args[2]
        vals.append(x)
    if not vals or any(x is not want for x in vals):
        return False, "result must be mont(precomp * (sign bit of f[%d] set ? -v : v)); got %s" % (N32, [Tm.show(x, maxdepth=7) for x in vals][:1])
    return True, "one loop, %d divstep(s) per pass, %d passes, state threaded in order, sign-corrected v times precomp" % (step, want_bound // step)


# ---- selection / constant-time equality / DOM ----------------------------------------------------------------

def domain(t):
    """Montgomery / canonical typestate of a raw-limb term"""
    if t.op == "mont":
        return "mont"
    if t.op in ("canon32", "canon_limbs", "le_u64_limbs", "canon_int", "bigint_of"):
        return "canon"
    if t.op == "field" and t.args[1] == "0" and t.args[0].op == "field" and t.args[0].args[1] == "0":
        return "mont"      # x.0.0 of an arkworks Fp / fiat Montgomery struct = Montgomery limbs
    if t.op == "struct" and t.args[0].endswith("BigInt") and len(t.args) == 3:
        return domain(t.args[2])
    if t.op == "ite":
        a, b = domain(t.args[1]), domain(t.args[2])
        return a if a == b else "mixed(%s,%s)" % (a, b)
    if t.op == "array":
        ds = {domain(x) for x in t.args}
        ds.discard("lit")
        if not ds:
            return "lit"
        return ds.pop() if len(ds) == 1 else "mixed"
    if t.op == "index":
        return domain(t.args[0])
    if t.op in ("cast",):
        return domain(t.args[1])
    if t.op in ("bor", "shl", "shr", "band"):
        ds = {domain(x) for x in t.args if isinstance(x, Tm.T)} - {"lit"}
        return ds.pop() if len(ds) == 1 else ("lit" if not ds else "mixed")
    if t.op in ("lit", "repeat", "bigint_one"):
        return "lit"
    if t.op == "param":
        return "param"
    return "unknown"


def check_dom(rep, cfg, loc):
    """every raw-limb constructor site in the field layer receives limbs of the domain it expects"""
    n = 0
    for path, b in sorted(cfg.prog.bodies.items()):
        if not (path.startswith("fields::") or path.startswith("<fields::")) or "::fiat::" in path or "body" not in b:
            continue
        if b["dk"] not in ("Fn", "AssocFn"):
            continue
        try:
            out, names = run_deep(cfg, path, loc)
        except Exception as ex:      # pragma: no cover - reported, never silently skipped
            rep.info("DOM: could not interpret %s: %r" % (path, ex))
            continue
        sites = []
        for t in Tm.subterms(mk("tuple", out.value, *out.outs.values())):
            if t.op == "fp_new_canonical":
                sites.append(("ark Fp::new (expects a canonical integer)", "canon", t.args[1]))
            elif t.op == "fp_new_montgomery":
                sites.append(("ark Fp::new_unchecked (expects Montgomery limbs)", "mont", t.args[1]))
            elif t.op == "struct" and "MontgomeryDomainFieldElement" in str(t.args[0]) and t.args[1] == ("0",):
                want = "canon" if "NonMontgomery" in t.args[0] else "mont"
                sites.append((t.args[0].split("::")[-1], want, t.args[2]))
        for what, want, arg in sites:
            d = domain(arg)
            if d in ("lit", "param", "unknown") or d.startswith("mixed(lit"):
                # literals / caller-supplied limbs (from_montgomery_limbs, from_le_limbs contracts) / opaque loop state
                continue
            n += 1
            ok = d == want
            rep.ob("DOM/%s/%s" % (cfg.name, norm_path(path)), ok,
                   "%s receives %s limbs: %s" % (what, d, Tm.show(arg, maxdepth=5)), where=cfg.where(path),
                   sample={"obligation": "DOM/%s/%s" % (cfg.name, norm_path(path)), "sink": what, "domain": d})
    return n


def check_select(rep, cfg, loc):
    for path, b in sorted(cfg.prog.bodies.items()):
        if not path.startswith("fields::") and not path.startswith("<fields::"):
            continue
        name = path.split("::")[-1]
        tr = b.get("impl_trait_def", "")
        if tr == "subtle::ConditionallySelectable" and name == "conditional_select":
            m = re.search(r"fields::(fq|fr|fp)::u(64|32)", b.get("impl_self", ""))
            if not m:
                continue
            f, be = m.group(1), m.group(2)
            if (be == "64") != (cfg.name in ("A", "R")):
                # the non-selected backend's wrapper is still compiled in cfg A: check it too (it is public API)
                pass
            out, names = run_deep(cfg, path, loc)
            v = out.value
            A_, B_, ch = mk("param", "a"), mk("param", "b"), mk("param", "choice")
            nl = LIMBS64[f] * (1 if be == "64" else 2)
            # locate the raw limb array of the result
            arr = None
            for t in Tm.subterms(v):
                if t.op == "array" and len(t.args) >= 2 and all(x.op == "ite" for x in t.args):
                    arr = t
                    break
            ok = False
            why = "no limb-wise selection found in %s" % Tm.show(v, maxdepth=5)
            if arr is not None:
                def limb_of(p_, i):
                    if be == "64":
                        return Tm.index(field(field(p_, "0"), "0"), lit(i))
                    return Tm.index(mk("mont", p_), lit(i))
                good = len(arr.args) == nl
                for i, x in enumerate(arr.args):
                    c, tb, fb = x.args
                    if not (c is mk("choice_true", ch) and tb is limb_of(B_, i) and fb is limb_of(A_, i)):
                        good = False
                ok = good
                why = "%d limbs (field has %d), each ITE(choice, b[i], a[i]): %s" % (len(arr.args), nl, good)
            # and the result is rebuilt in the Montgomery domain (DOM) - covered by check_dom; here: denotes one of the operands
            rep.ob("SELECT/%s/%s" % (cfg.name, norm_path(path)), ok and not out.unmodelled,
                   "conditional_select must be limb-wise ITE(choice, b, a) over all limbs of the Montgomery representation: %s" % why, where=cfg.where(path),
                   sample={"obligation": "SELECT/%s/%s" % (cfg.name, norm_path(path)), "limbs": nl})
        if tr == "subtle::ConstantTimeEq" and name == "ct_eq":
            m = re.search(r"fields::(fq|fr|fp)::u(64|32)", b.get("impl_self", ""))
            if not m:
                continue
            f, be = m.group(1), m.group(2)
            out, names = run_deep(cfg, path, loc)
            v = out.value
            S_, O_ = mk("param", "self"), mk("param", "other")
            nl = LIMBS64[f]
            ok = False
            if be == "64":
                # is_equal = AND_i self_limbs[i] == other_limbs[i], then Choice::from(is_equal as u8)
                conj = set()

                def collect(t):
                    if t.op == "and":
                        collect(t.args[0])
                        collect(t.args[1])
                    else:
                        conj.add(t)
                x = v
                while x.op in ("cast",):
                    x = x.args[1]
                if x.op == "ite" and x.args[1] is lit(1) and x.args[2] is lit(0):
                    x = x.args[0]
                collect(x)
                want = {Tm.eq(Tm.index(field(field(S_, "0"), "0"), lit(i)), Tm.index(field(field(O_, "0"), "0"), lit(i))) for i in range(nl)}
                ok = conj == want
                why = "conjunction over %d limb equalities (field has %d limbs)" % (len(conj), nl)
            else:
                ok = v is mk("call", "<[T] as subtle::ConstantTimeEq>::ct_eq", mk("mont", S_), mk("mont", O_)) or (
                    v.op == "call" and "ct_eq" in v.args[0] and set(v.args[1:]) == {mk("mont", S_), mk("mont", O_)})
                why = Tm.show(v, maxdepth=4)
            rep.ob("SELECT/%s/%s" % (cfg.name, norm_path(path)), ok, "ct_eq must compare all limbs of both operands: %s" % why, where=cfg.where(path))
        if tr == "core::cmp::PartialEq" and name == "eq":
            m = re.match(r"^fields::(fq|fr|fp)::u(64|32)::wrapper::F[qrp]$", E.strip_lt(b.get("impl_self", "")))
            if not m:
                continue
            f, be = m.group(1), m.group(2)
            if (be == "64") != (cfg.name in ("A", "R")):
                continue
            out, names = run_deep(cfg, path, loc)
            S_, O_ = mk("param", "self"), mk("param", "other")
            v = simplify_eq(out.value, f)
            ok = (v is Tm.eq(S_, O_) or v is Tm.eq(O_, S_) or v is Tm.eq(field(S_, "0"), field(O_, "0")) or v is Tm.eq(field(O_, "0"), field(S_, "0"))) and not out.unmodelled
            rep.ob("SELECT/%s/%s" % (cfg.name, norm_path(path)), ok,
                   "== on field elements must be equality of the two operands (all limbs of self - other, or the backend's own ==): %s" % Tm.show(v, maxdepth=5),
                   where=cfg.where(path))


# ---- exponentiation -----------------------------------------------------------------------------------------------

def drop_seen_flag(v):
    """MSB-first square-and-multiply that skips the squarings until the first set bit: the loops carry (r, seen) with (1, false) at the start,
    seen' = seen || bit, and r' is the usual step with r^2 replaced by ITE(seen, r^2, r).  Inductive invariant: !seen => r == 1 (holds at the
    start; if seen' is false then seen and bit were false and r' == r).  Under it ITE(seen, r^2, r) == r^2 (when !seen both are 1), so the
    flag can be dropped.  Returns the equivalent term over r alone, or v unchanged when this is not that shape or the invariant does not check."""
    try:
        if not (v.op == "proj" and v.args[0].op == "fold"):
            return v
        outer = v.args[0]
        it, limb, accs, inits, nexts = outer.args
        if len(accs) != 2:
            return v
        si = [k for k in (0, 1) if inits[k] is FALSE]
        if len(si) != 1:
            return v
        si = si[0]
        ri = 1 - si
        if v.args[1] != ri or not (inits[ri].op == "felem" and inits[ri].args[1] == 1):
            return v
        one = inits[ri]
        if not all(n.op == "proj" and n.args[0].op == "fold" for n in nexts) or nexts[0].args[0] is not nexts[1].args[0]:
            return v
        inner = nexts[0].args[0]
        if nexts[ri].args[1] != ri or nexts[si].args[1] != si:
            return v
        it2, i, a2, i2, n2 = inner.args
        if len(a2) != 2 or i2[ri] is not accs[ri] or i2[si] is not accs[si]:
            return v
        r2, s2 = a2[ri], a2[si]
        ns = n2[si]
        # seen' = seen || c
        if not (ns.op == "or" and s2 in ns.args):
            return v
        c = [x for x in ns.args if x is not s2][0]
        nr = n2[ri]
        # preservation: with seen and c false, r' is r
        if Tm.assume(Tm.assume(nr, s2, False), c, False) is not r2:
            return v
        N = P.Norm(K.MODULI[one.args[0]])

        def at_one(t):
            return N.pkey(N.poly(Tm.subst(t, {r2: one})))

        def strip(t, memo={}):
            if not isinstance(t, Tm.T) or not t.args:
                return t
            if t.op == "ite" and t.args[0] is s2:
                a_, b_ = strip(t.args[1]), strip(t.args[2])
                if at_one(a_) == at_one(b_):
                    return a_
                raise ValueError("flag selects between values that differ at r = 1")
            new = [strip(x) if isinstance(x, Tm.T) else x for x in t.args]
            return t if all(x is y for x, y in zip(new, t.args)) else Tm.rebuild(t.op, new)
        nr2 = strip(nr)
        if any(u is s2 for u in Tm.subterms(nr2)):
            return v
        inner2 = mk("fold", it2, i, (r2,), (accs[ri],), (nr2,))
        outer2 = mk("fold", it, limb, (accs[ri],), (one,), (mk("proj", inner2, 0),))
        return mk("proj", outer2, 0)
    except (ValueError, IndexError, AttributeError):
        return v


def exp_template(v, base, exp_seq):
    """does term v compute base^exp for exp given as a little-endian u64 limb sequence?  returns (ok, reason)"""
    v = drop_seen_flag(v)
    if not (v.op == "proj" and v.args[0].op == "fold"):
        return False, "result is not the state of a loop over the exponent: %s" % Tm.show(v, maxdepth=4)
    outer = v.args[0]
    it, limb, accs, inits, nexts = outer.args
    if it.op == "flat_map_t":
        return exp_template_flat(v, base, exp_seq)
    if it.op == "rev" and it.args[0].op == "struct" and it.args[0].args[0] == "core::ops::Range" and len(accs) == 1:
        # one loop over the GLOBAL bit index k = 64*len-1 .. 0 with bit k = (exp[k / 64] >> (k % 64)) & 1
        rng = dict(zip(it.args[0].args[1], it.args[0].args[2:]))
        n64 = Tm.intop("imul", lit(64), mk("len", exp_seq))
        if rng.get("start") is lit(0) and (rng.get("end") is n64 or rng.get("end") is Tm.intop("imul", mk("len", exp_seq), lit(64))):
            k = limb        # the loop item
            bit = Tm.intop("band", Tm.intop("shr", Tm.index(exp_seq, Tm.intop("idiv", k, lit(64))), Tm.intop("irem", k, lit(64))), lit(1))
            r = accs[0]
            sq = mk("mul", r, r)
            bs = Tm.bit_select(nexts[0], bit)
            if bs is not None and bs[0] is mk("mul", sq, base) and bs[1] is sq:
                if inits[0].op == "felem" and inits[0].args[1] == 1 and v.args[1] == 0:
                    return True, "MSB-first square-and-multiply over the global bit index of all limbs"
                return False, "accumulator must start at 1"
            return False, "global-bit-index step must be r' = ITE(bit k of exp, r^2*base, r^2) with bit k = (exp[k/64] >> (k%%64)) & 1; got %s" % Tm.show(nexts[0], maxdepth=7)
    rev_outer = False
    x = it
    if x.op == "rev":
        rev_outer, x = True, x.args[0]
    if x is not exp_seq:
        return False, "outer loop does not iterate over the whole exponent slice: iterator %s" % Tm.show(it, maxdepth=4)
    idx = v.args[1]
    nx = nexts[idx]
    if not (nx.op == "proj" and nx.args[0].op == "fold"):
        return False, "no inner loop over the 64 bits of each limb"
    inner = nx.args[0]
    it2, i, accs2, inits2, nexts2 = inner.args
    rev_inner = False
    y = it2
    if y.op == "rev":
        rev_inner, y = True, y.args[0]
    rng = dict(zip(y.args[1], y.args[2:])) if y.op == "struct" and y.args[0] == "core::ops::Range" else {}
    if not (rng.get("start") is lit(0) and rng.get("end") is lit(64)):
        return False, "inner loop must cover bit positions 0..64; iterator %s" % Tm.show(it2, maxdepth=4)
    if tuple(inits2) != tuple(accs):
        return False, "inner loop does not continue from the outer state"
    bit = Tm.intop("band", Tm.intop("shr", limb, i), lit(1))

    def is_bit(c):
        return c is Tm.eq(bit, lit(1)) or c is Tm.ne(bit, lit(0))
    if rev_outer and rev_inner and len(accs) == 1:
        # MSB first: r' = r^2 * (bit ? base : 1)
        r = accs2[0]
        sq = mk("mul", r, r)
        t = nexts2[0]
        bs = Tm.bit_select(t, bit)
        if bs is not None and bs[0] is mk("mul", sq, base) and bs[1] is sq:
            if inits[0].op == "felem" and inits[0].args[1] == 1:
                return True, "MSB-first square-and-multiply over all limbs"
            return False, "accumulator must start at 1"
        return False, "MSB-first step must be r' = ITE(bit, r^2*base, r^2); got %s" % Tm.show(t, maxdepth=6)
    if (not rev_outer) and (not rev_inner) and len(accs) == 2:
        # LSB first: acc' = bit ? acc*ins : acc ; ins' = ins^2
        one = [k for k, t in enumerate(inits) if t.op == "felem" and t.args[1] == 1]
        bs = [k for k, t in enumerate(inits) if t is base]
        if len(one) != 1 or len(bs) != 1:
            return False, "LSB-first initial state must be (acc = 1, insert = base)"
        ai, ii = one[0], bs[0]
        if idx != ai:
            return False, "returns the running power instead of the accumulator"
        a2, s2 = accs2[ai], accs2[ii]
        t = nexts2[ai]
        bs = Tm.bit_select(t, bit)
        okacc = bs is not None and bs[0] is mk("mul", a2, s2) and bs[1] is a2
        okins = nexts2[ii] is mk("mul", s2, s2)
        if okacc and okins:
            return True, "LSB-first square-and-multiply over all limbs"
        return False, "LSB-first step must be acc' = ITE(bit, acc*ins, acc), ins' = ins^2; got %s / %s" % (Tm.show(t, maxdepth=5), Tm.show(nexts2[ii], maxdepth=4))
    return False, "loop directions / state do not match a square-and-multiply template (outer reversed: %s, inner reversed: %s, %d carried values)" % (rev_outer, rev_inner, len(accs))


def exp_template_flat(v, base, exp_seq):
    """the same template written as one fold over the flattened bit stream:
       fold(flat_map(limbs.rev(), |limb| (0..64).rev().map(|i| bit(limb, i))), 1, |r, bit| bit ? r^2*base : r^2)"""
    it, bititem, accs, inits, nexts = v.args[0].args
    limb, inner, src = it.args
    if not (src.op == "rev" and src.args[0] is exp_seq):
        return False, "flattened bit stream must run over the whole exponent slice, most significant limb first: source %s" % Tm.show(src, maxdepth=4)
    if limb is not mk("item_of", src):
        return False, "flat_map closure is not applied to the limbs of the exponent"
    if inner.op != "seq_map_t":
        return False, "per-limb bit stream is not a map over bit positions: %s" % Tm.show(inner, maxdepth=4)
    i, body, rngsrc = inner.args
    y = rngsrc
    if not (y.op == "rev" and i is mk("item_of", rngsrc)):
        return False, "per-limb bit positions must run from 63 down to 0 in the MSB-first form"
    y = y.args[0]
    rng = dict(zip(y.args[1], y.args[2:])) if y.op == "struct" and y.args[0] == "core::ops::Range" else {}
    if not (rng.get("start") is lit(0) and rng.get("end") is lit(64)):
        return False, "per-limb bit positions must cover 0..64; iterator %s" % Tm.show(rngsrc, maxdepth=4)
    bit = Tm.intop("band", Tm.intop("shr", limb, i), lit(1))
    if not (body is Tm.eq(bit, lit(1)) or body is Tm.ne(bit, lit(0))):
        return False, "stream element is not the bit (limb >> i) & 1: %s" % Tm.show(body, maxdepth=6)
    if len(accs) != 1 or v.args[1] != 0:
        return False, "flattened form carries exactly the running power"
    r = accs[0]
    sq = mk("mul", r, r)
    t = nexts[0]
    isb = lambda c: c is bititem or c is Tm.eq(bititem, Tm.TRUE)
    if t.op == "ite" and isb(t.args[0]) and t.args[1] is mk("mul", sq, base) and t.args[2] is sq:
        if inits[0].op == "felem" and inits[0].args[1] == 1:
            return True, "MSB-first square-and-multiply over the flattened bit stream of all limbs"
        return False, "accumulator must start at 1"
    return False, "MSB-first step must be r' = ITE(bit, r^2*base, r^2); got %s" % Tm.show(t, maxdepth=6)


def check_exp(rep, cfg):
    for path, b in sorted(cfg.prog.bodies.items()):
        name = path.split("::")[-1]
        if name not in ("power", "pow_le_limbs") or not ("fields::" in path or "invsqrt" in path):
            continue
        out = cfg.run(path)      # field ops abstract: the loop shape is what matters
        names = [p.get("name") for p in b["params"]]
        base = mk("param", names[0])
        ex = mk("param", names[1])
        ok, why = exp_template(out.value, base, ex)
        if out.unmodelled:
            ok = False
            why += "; unmodelled: " + "; ".join(out.unmodelled[:2])
        rep.ob("EXP/%s/%s" % (cfg.name, norm_path(path)), ok, "exponentiation must honour the whole multi-limb exponent with a correct template: %s" % why,
               where=cfg.where(path), sample={"obligation": "EXP/%s/%s" % (cfg.name, norm_path(path)), "verdict": why})


def run(rep, facts, tier):
    rep.explanation = (
        "FWD: every operator/iterator impl of fields/*/ops.rs and every arithmetic method of the wrappers and of the arkworks glue, enumerated from "
        "the compiler's impl table, is interpreted with structured arguments (wrapper{backend value of element $x}) down to the backend primitive - an "
        "arkworks Fp operator (64-bit) or the fiat function of the same field (32-bit) - and its denotation must be the right ring operation on its "
        "own operands. IDENT/EXP/DOM/SELECT/INV are the structural rules behind the three defects the property text names. The primitives themselves "
        "(arkworks Montgomery arithmetic, the Coq-proved fiat bodies) are trusted and not analysed.")
    rep.rules += ["FWD", "IDENT", "EXP", "DOM", "SELECT", "INV"]
    rep.trusted += ["ark_ff::Fp<MontBackend> arithmetic", "fiat-crypto generated word-by-word Montgomery code (src/fields/*/u32/fiat.rs, not analysed)", "rustc trait resolution"]
    rep.assumptions += ["SENTINEL is not a field element (operations on it are documented as undefined); is_sentinel() is taken as false",
                        "mutations inside the generated fiat.rs files are outside this check's reach"]
    counts = {}
    for name, f in facts.items():
        if name == "R":
            continue
        cfg = Cfg(f)
        loc = sentinel_summary(cfg)
        loc_ops = with_inverse_summary(cfg, loc)
        n1 = check_ops(rep, cfg, loc_ops)
        n2 = check_methods(rep, cfg, loc_ops)
        nft = check_field_trait_methods(rep, cfg, loc_ops)
        if name == "A":
            rep.floor("field_trait_methods_A", nft, 69)
        cfg.cache = {k: v for k, v in cfg.cache.items() if not (isinstance(k, tuple) and k[-1] == "deep+args")}
        check_inverse(rep, cfg, loc)
        check_sentinel(rep, cfg)
        check_select(rep, cfg, loc)
        from . import groupops as _G
        _G.check_core_overrides(rep, cfg, ("field",), runner=lambda pth, cfg=cfg, loc=loc: run_deep(cfg, pth, loc)[0])
        n3 = check_dom(rep, cfg, loc)
        check_exp(rep, cfg)
        counts[name] = {"operator_impls": n1, "methods": n2, "dom_sites": n3}
    rep.analysed["field_layer"] = counts
    for name, c in counts.items():
        rep.floor("operator_impls_" + name, c["operator_impls"], 87)
        rep.floor("methods_" + name, c["methods"], 42 if name == "A" else 15)
