"""C14 — R1CS gadgets are sound against adversarial prover hints (hint block + witness path)."""
import re
from . import terms as Tm
from .terms import mk
from .curve import Cfg
from .common import norm_path
from . import gadgets as GD


def prov_r(rep, cfg):
    """every call of new_variable_omit_prime_order_check from crate code outside the two impls of that name must be Constant-mode or the tabled Witness-path call"""
    allowed_callers = set()
    for path, b in cfg.prog.bodies.items():
        if path.endswith("::new_variable_omit_prime_order_check"):
            allowed_callers.add(path)
    n = 0
    for path, b in sorted(cfg.prog.bodies.items()):
        if "r1cs" not in path or "body" not in b or path in allowed_callers or "::tests::" in path:
            continue
        sites = []

        def walk(node):
            if isinstance(node, dict):
                c = node.get("callee") or ((node.get("r") or {}).get("callee") if isinstance(node.get("r"), dict) else None)
                if isinstance(c, dict) and c.get("path", "").endswith("new_variable_omit_prime_order_check") and node.get("k") in ("Call", "MethodCall", "Path"):
                    sites.append(node.get("sp"))
                for v in node.values():
                    walk(v)
            elif isinstance(node, list):
                for v in node:
                    walk(v)
        walk(b["body"])
        if not sites:
            continue
        n += len(sites)
        # the inner AllocVar<Element>::new_variable is the one place: Constant arm and the Witness arm whose result is only equality-constrained (WITNESS rule)
        ok = path.endswith("::new_variable") and "inner::ElementVar" in path and "AllocVar<ark_curve::element::projective::Element" in path
        rep.ob("PROV/R/%s" % norm_path(path), ok,
               "%d call(s) of new_variable_omit_prime_order_check (allocates a curve point without any group-membership constraint): only the Constant / Witness arms of the inner "
               "AllocVar<Element> may use it (the WITNESS rule shows the offered point never becomes the output)" % len(sites), where=sites[0], nontrivial=True)
    rep.analysed["omit_check_call_sites"] = n


def run(rep, facts, tier):
    rep.explanation = (
        "GUARD: the boolean guards of the four conditional constraints of FqVarExtension::isqrt and of its final case check are extracted and evaluated exhaustively over "
        "their two atoms (hinted flag, den == 0) - a finite truth table per row with the enforced equation's right-hand side compared as a polynomial. WITNESS: dataflow "
        "on AllocVar<Element> (Witness): the returned variable is decompress(witness(encode(value))); the prover-supplied coordinates reach only an equality constraint. "
        "PROV: call sites of the unchecked curve-point allocator. Decode's two ENFORCEs (shared with C13).")
    rep.rules += ["GUARD", "WITNESS", "PROV", "ENFORCE"]
    rep.trusted += ["ark-r1cs-std: FpVar::inverse enforces invertibility, to_bits_le is the unique canonical decomposition, Boolean gadgets"]
    rep.assumptions += ["absence of other spurious solutions of the whole constraint system is algebra over Fq (partially covered: zeta non-square, the guard table) - not decided"]
    if "R" not in facts:
        rep.fail_closed("C14 needs the r1cs configuration")
        return
    cfg = Cfg(facts["R"])
    GD.isqrt_guard_table(rep, cfg, "C14")
    GD.alloc_modes(rep, cfg, "C14")
    GD.check_gadget_codec(rep, facts["R"], "C14", cfg)
    prov_r(rep, cfg)
    GD.eager_decode(rep, cfg)       # decompress_from_field is the in-circuit validity check: it must actually emit the decode constraints
    rep.floor("obligations", len(rep.obligations), 14)
