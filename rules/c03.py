"""C03 — encoding depends only on the group element and equals the specified encoding.

TERM/encode (shared with C01): the encoder is the specification's map on projective X,Z,T.
HOMOG [S]: under (X,Y,Z,T) -> l*(X,Y,Z,T) with ISQRT(1, l^4 w) = +-l^-2 ISQRT(1,w) the output has weight 0 and every
sign test looks at a weight-0 quantity (independent of spec/).
FUNNEL [S]: every encoding entry point (conversions, serialisers, Debug/Display, ToConstraintField) observes
`self` only through bytes(encode(self)).
"""
import re
from . import terms as Tm, consts as K
from .terms import mk, lit, field, TRUE, FALSE
from . import curve as C
from .curve import Cfg, pkey
from .common import norm_path
from . import c01


# ---- homogeneity ------------------------------------------------------------------------------------

def weights(N, cfgname, poly_key_atoms=None):
    """weight of every atom of Norm N under the projective scaling; None = not assignable"""
    w = {}

    def atom_weight(i):
        if i in w:
            return w[i]
        k = N.atom_desc[i]
        r = None
        if k[0] == "field":
            # field(field($self,inner),x) / field($self,x)
            name = k[-1]
            r = 1 if name in ("x", "y", "z", "t") else None
        elif k[0] == "isqrt_v":
            wn, wd = poly_weight(dict(k[1])), poly_weight(dict(k[2]))
            if wn is not None and wd is not None and (wn - wd) % 2 == 0:
                r = (wn - wd) // 2
        elif k[0] == "ite":
            # value-selection atoms produced by abs(): +-1
            a, b = dict(k[2]), dict(k[3])
            wa, wb = poly_weight(a), poly_weight(b)
            r = wa if wa == wb else None
        elif k[0] == "ind":
            r = 0          # indicator of a condition: a 0/1 value
        elif k[0] == "inv":
            wi = poly_weight(dict(k[1]))
            r = -wi if wi is not None else None
        w[i] = r
        return r

    def poly_weight(poly):
        ws = set()
        for m, c in poly.items():
            t = 0
            for a, e in m:
                aw = atom_weight(a)
                if aw is None:
                    return None
                t += aw * e
            ws.add(t)
        if not ws:
            return 0
        return ws.pop() if len(ws) == 1 else None

    return atom_weight, poly_weight


def sign_args(N, poly, acc=None, seen=None):
    """all polynomials p such that sign(p) is tested anywhere inside poly"""
    if acc is None:
        acc, seen = [], set()

    def from_cond(c):
        if c[0] == "sign":
            acc.append(dict(c[1]))
            walk_poly(dict(c[1]))
        elif c[0] in ("not",):
            from_cond(c[1])
        elif c[0] in ("and", "or"):
            for x in c[1:]:
                from_cond(x)
        elif c[0] == "ite":
            for x in c[1:]:
                from_cond(x)

    def walk_poly(p):
        for m in p:
            for a, e in m:
                if a in seen:
                    continue
                seen.add(a)
                k = N.atom_desc[a]
                if k[0] == "ind":
                    from_cond(k[1])
                elif k[0] == "ite":
                    from_cond(k[1])
                    walk_poly(dict(k[2]))
                    walk_poly(dict(k[3]))
                elif k[0] == "isqrt_v":
                    walk_poly(dict(k[1]))
                    walk_poly(dict(k[2]))
    walk_poly(poly)
    return acc


def homogeneity(rep, cfg):
    p = cfg.p_encode(rep)
    if p is None:
        return
    out = cfg.run(p)
    N = cfg.norm
    poly = N.poly(out.value)
    aw, pw = weights(N, cfg.name)
    w = pw(poly)
    rep.ob("HOMOG/%s/encode:weight-0" % cfg.name, w == 0,
           "under (X,Y,Z,T) -> l(X,Y,Z,T) and ISQRT(1,l^4 w) = +-l^-2 ISQRT(1,w) the encoding must be homogeneous of weight 0; computed weight: %s" % (w,),
           where=cfg.where(p), sample={"obligation": "HOMOG/%s/encode" % cfg.name, "weight": w})
    sa = sign_args(N, poly)
    bad = [N.show(a, 3) for a in sa if pw(a) != 0]
    rep.ob("HOMOG/%s/encode:sign-tests" % cfg.name, not bad and len(sa) >= 2,
           "every sign test (abs) must look at a weight-0 quantity, and there must be the two normalisations of the specification; found %d sign tests, inhomogeneous: %s" % (len(sa), bad),
           where=cfg.where(p))


def coset_invariance(rep, cfg):
    """"either curve point of its two-element coset": P and P + (0,-1) = (-X : -Y : Z : T) are the same group element, so the encoder's term must
    be unchanged under (X, Y) -> (-X, -Y).  Decided on the code's own term (no specification involved) with the normaliser in which
    sign(-u) = not sign(u), i.e. abs(-u) = abs(u): exact away from the zeros of the abs-tested quantities, where both sides are 0 anyway."""
    from . import poly as P_
    p = cfg.p_encode(rep)
    if p is None:
        return
    out = cfg.run(p)
    X, Y, Z, T = C.element_coords_of_param(cfg, mk("param", "self"))
    fx, fy = mk("sym", "coset_x"), mk("sym", "coset_y")
    # substitute through fresh symbols so that X -> -X does not rewrite the -X just introduced
    t1 = Tm.subst(out.value, {X: fx, Y: fy})
    flipped = Tm.subst(t1, {fx: mk("neg", X), fy: mk("neg", Y)})
    NS = P_.Norm(K.Q, sign_odd=True)
    r = NS.add(NS.poly(flipped), NS.poly(out.value), -1)
    rep.ob("COSET/%s/encode" % cfg.name, not r and not out.unmodelled,
           "encode(-X : -Y : Z : T) must equal encode(X : Y : Z : T) (the two curve points of one group element); remainder: %s" % NS.show(r, 3),
           where=cfg.where(p), sample={"obligation": "COSET/%s/encode" % cfg.name, "remainder_terms": len(r)})


# ---- FUNNEL --------------------------------------------------------------------------------------------

def compress_summaries(cfg, rep):
    loc = {}
    pc = cfg.p_compress(rep)
    pe = cfg.p_encode(rep)
    if pc:
        adt = "ark_curve::encoding::Encoding" if cfg.name in ("A", "R") else "min_curve::encoding::Encoding"
        loc[pc] = lambda ctx: mk("struct", adt, ("0",), mk("enc_bytes", ctx.args[0]))
    if pe:
        loc[pe] = lambda ctx: mk("enc_field", ctx.args[0])
    return loc


def same_element(t, param):
    """t denotes the same group element as param (identity or a representation change of its inner point)"""
    if t is param:
        return True
    if t.op == "struct" and (t.args[0].endswith("::Element") or t.args[0].endswith("::AffinePoint")) and t.args[1] == ("inner",):
        x = t.args[2]
        while x.op in ("to_teproj", "to_teaff"):
            x = x.args[0]
        return x is field(param, "inner")
    return False


def raw_uses(t, param, shield):
    """sub-terms through which `param` is observed outside a shield node"""
    bad = []
    seen = set()

    def walk(x, parent):
        if isinstance(x, tuple):
            for y in x:
                walk(y, parent)
            return
        if not isinstance(x, Tm.T):
            return
        if x is param:
            bad.append(parent)
            return
        if (x, ) in seen:
            return
        seen.add((x,))
        if shield(x):
            return
        for a in x.args:
            walk(a, x)
    walk(t, None)
    return bad


def encode_entry_points(cfg):
    eps = []
    for path, b in cfg.prog.bodies.items():
        tr = b.get("impl_trait_def", "")
        st = b.get("impl_self", "")
        it = b.get("impl_trait", "")
        name = path.split("::")[-1]
        pts = ("::Element", "::AffinePoint")
        if tr == "core::convert::From" and name == "from" and (st.endswith("Encoding") or st == "[u8; 32]") and ("Element" in it.split("From<")[-1] or "AffinePoint" in it.split("From<")[-1]):
            eps.append(path)
        if tr == "ark_serialize::CanonicalSerialize" and name == "serialize_with_mode" and (st.endswith(pts) or st.endswith("Encoding")) and "fields::" not in st:
            eps.append(path)
        if tr in ("core::fmt::Debug", "core::fmt::Display") and name == "fmt" and st.endswith(pts) and "min_curve" not in st:
            eps.append(path)
        if tr == "ark_ff::ToConstraintField" and st.endswith("::Element"):
            eps.append(path)
    return sorted(eps)


def funnel(rep, cfg):
    loc = compress_summaries(cfg, rep)
    eps = encode_entry_points(cfg)
    rep.analysed.setdefault("encode_entry_points", {})[cfg.name] = [norm_path(p) for p in eps]
    for p in eps:
        b = cfg.prog.bodies[p]
        out = cfg.run(p, local=loc)
        pname = b["params"][0].get("name", "self") if b.get("params") else "self"
        param = mk("param", pname)
        is_enc = b.get("impl_self", "").endswith("Encoding") and b.get("impl_trait_def") == "ark_serialize::CanonicalSerialize"

        def shield(x):
            if x.op in ("enc_bytes", "enc_field") and same_element(x.args[0], param):
                return True
            if is_enc and x.op == "field" and x.args[0] is param and x.args[1] == "0":
                return True     # an Encoding's own bytes
            return False
        outputs = [("return", out.value)]
        for pc, kind, args, site in out.effects:
            if kind in ("write_all", "fmt", "hash_write"):
                outputs.append((kind, mk("tuple", *[a for a in args if isinstance(a, Tm.T)])))
        bad = []
        n_shielded = 0
        for kind, t in outputs:
            r = raw_uses(t, param, shield)
            bad += ["%s observes %s" % (kind, Tm.show(x, maxdepth=4) if x is not None else "self directly") for x in r]
            if Tm.contains(t, lambda s: shield(s)):
                n_shielded += 1
        # the formatter / writer parameters are not the element
        if b.get("impl_trait_def") == "ark_serialize::CanonicalSerialize":
            # a serialiser must hand the complete encoding to the writer (write_all), not merely mention it
            wa = [t for kind, t in outputs if kind == "write_all" and Tm.contains(t, lambda s_: shield(s_))]
            if not wa:
                bad.append("no write_all of the complete encoding reaches the writer")
        # ... and the bytes that leave are the encoding itself, untransformed (hex text for Debug/Display)
        def exact(x):
            return shield(x) and x.op != "enc_field"
        rty = (b.get("output") or "").replace(" ", "")
        v = out.value
        if rty.endswith("Encoding") or rty == "[u8;32]":
            if v.op == "struct" and v.args[0].endswith("Encoding") and v.args[1] == ("0",):
                v = v.args[2]
            if not exact(v):
                bad.append("returned bytes are not exactly bytes(encode(self)): %s" % Tm.show(v, maxdepth=4))
        for kind, t in outputs:
            if kind == "write_all" and not any(exact(a_) for a_ in t.args):
                bad.append("write_all argument is a transformation of the encoding: %s" % Tm.show(t, maxdepth=4))
            if kind == "fmt":
                for h in Tm.subterms(t):
                    if h.op == "hex" and not exact(h.args[0]):
                        bad.append("hex text of something other than the encoding bytes: %s" % Tm.show(h, maxdepth=4))
        for u in out.unmodelled:
            bad.append("unmodelled construct on the output path: " + u)
        key = "FUNNEL/%s/%s" % (cfg.name, norm_path(p))
        rep.ob(key, not bad and n_shielded >= 1,
               "encoding entry point must observe the element only through bytes(encode(self)) (hex/format afterwards); " +
               ("ok: %d output(s) through the encoder" % n_shielded if not bad and n_shielded else "violations: %s; outputs through encoder: %d" % (sorted(set(bad))[:3], n_shielded)),
               where=cfg.where(p), sample={"obligation": key, "outputs": [(k, Tm.show(t, maxdepth=5)) for k, t in outputs][:3]})
        for u in out.unmodelled:
            rep.unmodelled.append("%s %s: %s" % (cfg.name, norm_path(p), u))
    # unwrapping an Encoding yields its own bytes, untransformed
    for path, b in sorted(cfg.prog.bodies.items()):
        if b.get("impl_trait_def") == "core::convert::From" and b.get("impl_self", "").replace(" ", "") == "[u8;32]" and \
                any(str(i_).endswith("Encoding") for i_ in (b.get("inputs") or [])):
            out = cfg.run(path)
            pn = b["params"][0].get("name", "p0")
            rep.ob("FUNNEL/%s/%s" % (cfg.name, norm_path(path)), out.value is field(mk("param", pn), "0") and not out.unmodelled,
                   "From<Encoding> for [u8; 32] must return the encoding's own bytes; got %s" % Tm.show(out.value, maxdepth=4), where=cfg.where(path), nontrivial=False)
    # serialized_size = 32
    for path, b in cfg.prog.bodies.items():
        if b.get("impl_trait_def") == "ark_serialize::CanonicalSerialize" and path.endswith("::serialized_size") and "fields::" not in path:
            out = cfg.run(path)
            vals = {v for pc, v in C.expand_flows(out.flows)}
            rep.ob("CONST/%s/%s" % (cfg.name, norm_path(path)), vals == {lit(32)}, "serialized_size must be 32 on every non-panicking path; got %s" % [Tm.show(v) for v in vals],
                   where=cfg.where(path), nontrivial=False)
    return eps


def run(rep, facts, tier):
    rep.explanation = (
        "TERM/encode: canonical polynomial form of vartime_compress_to_field equals the specification's encoder on projective (X:Y:Z:T) "
        "(for every representative and scaling at once). HOMOG: weights of the extracted polynomial under projective scaling - a "
        "spec-independent necessary condition for scaling invariance. FUNNEL: each encoding entry point, enumerated from the impl table, "
        "observes self only through bytes(encode(self)).")
    rep.rules += ["TERM", "HOMOG", "COSET (invariance under (X,Y) -> (-X,-Y))", "FUNNEL", "SIB"]
    rep.trusted += ["rustc type checker / trait resolution", "summary table", "spec/decaf_spec.py"]
    rep.assumptions += ["the specified encoder is constant on cosets and injective on the quotient group (Decaf theorem)", "ISQRT contract (C09), field ops (C10)"]
    cfgs = {k: Cfg(f) for k, f in facts.items() if k in ("A", "M", "R")}
    n = 0
    for name, cfg in cfgs.items():
        if name == "R":
            continue
        c01.check_encode_term(rep, cfg)
        c01.check_compress_funnel(rep, cfg)
        homogeneity(rep, cfg)
        coset_invariance(rep, cfg)
        c01.isqrt_zero_cases(rep, cfg)
        n += len(funnel(rep, cfg))
    if "R" in cfgs:
        # ToConstraintField lives behind the r1cs feature
        n += len(funnel(rep, cfgs["R"]))
    # "affine or projective form ... affine round trips": every conversion between the two forms (From impls, into_affine, batch
    # normalisation) must hand the encoder a representation of the SAME element - C06's provenance instances on those sites
    # (a raw (X, Y) copied out of a Z != 1 point is not a point at all, yet compares equal to the original).
    from . import c06
    from .common import import_rules
    conv = re.compile(r"normalize_batch|batch_convert_to_mul_base|into_affine|convert::From<&?ark_curve::element::(affine::AffinePoint|projective::Element)>|from_affine|min_curve::element::Element::new")
    nconv = import_rules(rep, c06, {k: v for k, v in facts.items() if k != "R"}, tier, "CONV", pred=lambda k: k.startswith("PROV/") and bool(conv.search(k)))
    rep.rules += ["CONV (C06's PROV instances on the affine <-> projective conversion sites)"]
    rep.floor("conversion_sites", nconv, 6)
    if "A" in cfgs:
        from . import groupops
        groupops.check_identity_forms(rep, cfgs["A"], "C03")     # into_affine / into_group / cofactor forms denote their own operand
    from . import groupops as _G
    for _c in cfgs.values():
        if _c.name != "R":
            # in-place / swapped selection overrides hand out elements too: a stale coordinate compares equal and encodes differently
            _G.check_core_overrides(rep, _c, _G.POINT_SORTS)
    rep.floor("encode_entry_points_total", n, 9)
