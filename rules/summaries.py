"""Summary table: meaning of external callees (arkworks, core, subtle, r1cs-std, ...) and - when the
field layer is abstracted - of the crate's own field API, as terms of the abstract domain.

Every entry is keyed by the resolved callee (trait method path / instance path) and the sort of the
receiver type.  Anything not listed stays an uninterpreted symbol and is reported as unmodelled.
"""
import re
from . import terms as Tm
from . import consts as K
from .terms import mk, lit, ite, not_, and_, or_, eq, ne, field, index, variant, is_variant, payload, TRUE, FALSE, UNIT
from .engine import strip_ref, strip_lt

FIELD_RE = re.compile(r"^fields::(fq|fr|fp)::u(?:64|32)::wrapper::F[qrp]$")
ARKFP_RE = re.compile(r"^ark_ff::Fp<ark_ff::MontBackend<([\w:]+), \d+>, \d+>$")
ARKCFG = {"ark_bls12_377::FrConfig": "fq", "ark_ed_on_bls12_377::FrConfig": "fr", "ark_bls12_377::FqConfig": "fp"}


def sort_of(ty):
    """abstract sort of a (reference-stripped) type string"""
    t = strip_ref(strip_lt(ty or ""))
    m = FIELD_RE.match(t)
    if m:
        return ("field", m.group(1))
    m = ARKFP_RE.match(t)
    if m and m.group(1) in ARKCFG:
        return ("arkfp", ARKCFG[m.group(1)])
    if t.startswith("ark_r1cs_std::fields::fp::FpVar<"):
        return ("fvar", "fq")
    if t.startswith("ark_r1cs_std::prelude::Boolean<") or t.startswith("ark_r1cs_std::bits::boolean::Boolean<"):
        return ("boolvar", None)
    if t.startswith("ark_ec::twisted_edwards::Projective<"):
        return ("teproj", None)
    if t.startswith("ark_ec::twisted_edwards::Affine<"):
        return ("teaff", None)
    if t.startswith("ark_r1cs_std::groups::curves::twisted_edwards::AffineVar<"):
        return ("affvar", None)
    if t in ("ark_curve::element::projective::Element", "min_curve::element::Element"):
        return ("element", None)
    if t == "ark_curve::element::affine::AffinePoint":
        return ("affinepoint", None)
    if re.fullmatch(r"[ui](8|16|32|64|128|size)", t):
        return ("int", t)
    if t == "bool":
        return ("bool", None)
    if t.startswith("ark_ff::BigInt<"):
        return ("bigint", None)
    if t == "subtle::Choice":
        return ("choice", None)
    return (None, t)


def felem(sort, v):
    return mk("felem", sort, v % K.MODULI[sort])


TEPROJ = "TEProj"
TEAFF = "TEAff"


def teproj(x, y, t, z):
    return mk("struct", TEPROJ, ("x", "y", "t", "z"), x, y, t, z)


def teaff(x, y):
    return mk("struct", TEAFF, ("x", "y"), x, y)


# ring constructors (typed only through their leaves)
def r_add(a, b):
    return mk("add", a, b)


def r_sub(a, b):
    return mk("sub", a, b)


def r_mul(a, b):
    return mk("mul", a, b)


def r_neg(a):
    return mk("neg", a)


def r_inv(a):
    return mk("inv", a)


def opt_inverse(x, sort):
    z = eq(x, felem(sort, 0)) if sort else mk("is_zero", x)
    return ite(z, variant("None"), variant("Some", r_inv(x)))


def sign(x):
    return mk("sign", x)


BENIGN = re.compile(
    r"^(core::fmt::|core::panicking::|tracing|tracing_core|ark_std::io::stdio|core::mem::forget|hex::|core::str::|zeroize::|core::char::methods|<T as ark_std::string::ToString>|ark_serialize::Flags::|"
    r"<.* as zeroize::Zeroize>|core::hash::Hasher|core::intrinsics::discriminant_value|ark_std::string::)")


class Summaries:
    GLUE = {"from_bytes_checked", "deserialize_compressed", "serialize_compressed", "serialized_size", "from_le_bytes_mod_order",
            "from_be_bytes_mod_order", "into_bigint", "from_bigint", "cmp", "partial_cmp", "hash", "rand", "to_bytes",
            "deserialize_with_flags", "serialize_with_flags", "serialize_with_mode", "deserialize_with_mode", "from_str", "fmt",
            "from_random_bytes_with_flags", "serialized_size_with_flags", "check", "legendre", "sqrt", "from", "power", "pow_le_limbs",
            "characteristic", "extension_degree", "from_base_prime_field_elems", "from_base_prime_field", "to_base_prime_field_elements"}

    def __init__(self, abstract_fields=True, abstract_group=False, local=None, abstract_glue=True):
        self.abstract_fields = abstract_fields
        self.abstract_glue = abstract_glue
        self.abstract_group = abstract_group
        self.local = local or {}     # instance path -> function(ctx) : rule-supplied summaries of crate functions
        self.sqrt_routines = []

    def is_benign_opaque(self, key):
        return bool(BENIGN.match(key or ""))

    # ---- constants ---------------------------------------------------------------------------
    def value_to_term(self, v):
        if isinstance(v, dict):
            if "int" in v:
                if v.get("ty") == "bool":
                    return TRUE if int(v["int"]) else FALSE
                return lit(int(v["int"]))
            ty = v.get("ty", "")
            adt = v.get("adt", "")
            so = sort_of(ty)
            if so[0] in ("field", "arkfp"):
                f, val, raw = K.felt(v, so[1])
                e = mk("felem_raw", f, raw) if raw >= K.MODULI[f] else felem(f, val)
                if so[0] == "field" and not self.abstract_fields:
                    # deep mode: wrapper values are structured  wrapper{0: backend value}
                    t = strip_ref(strip_lt(ty))
                    if "::u32::" in t:
                        me = "fields::%s::u32::fiat::F%sMontgomeryDomainFieldElement" % (f, f[1])
                        return mk("struct", t, ("0",), mk("struct", me, ("0",), mk("mont", e)))
                    return mk("struct", t, ("0",), e)
                return e
            if so[0] == "teproj":
                fs = v["fields"]
                return teproj(*[self.value_to_term(fs[k]) for k in ("x", "y", "t", "z")])
            if so[0] == "teaff":
                fs = v["fields"]
                return teaff(self.value_to_term(fs["x"]), self.value_to_term(fs["y"]))
            if "arr" in v:
                return mk("array", *[self.value_to_term(x) for x in v["arr"]])
            if "tup" in v:
                return mk("tuple", *[self.value_to_term(x) for x in v["tup"]])
            if "str" in v:
                return mk("strlit", v["str"])
            if "fields" in v:
                names = tuple(k for k in v["fields"])
                vals = [self.value_to_term(v["fields"][k]) for k in names]
                if "variant" in v:
                    return variant(v["variant"], *vals)
                return mk("struct", adt, names, *vals)
        return mk("unknown_const", str(v)[:60])

    def const_summary(self, I, path, c, e):
        """constants that are not in the local const table (external assoc consts)"""
        tp = c.get("path", "")
        ty = strip_ref(e.get("ty", ""))
        so = sort_of(ty)
        last = tp.split("::")[-1]
        if path in I.prog.consts:
            return None
        if so[0] in ("field", "arkfp", "fvar") and last in ("ZERO", "ONE"):
            return felem(so[1], 0 if last == "ZERO" else 1)
        if tp == "core::num::<impl u64>::MAX":
            return lit((1 << 64) - 1)
        m_ = re.match(r"^core::num::<impl ([ui])(8|16|32|64|128)>::(MAX|MIN|BITS)$", tp)
        if m_:
            sg, w, what = m_.group(1), int(m_.group(2)), m_.group(3)
            if what == "BITS":
                return lit(w)
            if sg == "u":
                return lit((1 << w) - 1 if what == "MAX" else 0)
            return lit((1 << (w - 1)) - 1 if what == "MAX" else -(1 << (w - 1)))
        if tp.endswith("Boolean::<F>::TRUE"):
            return TRUE
        if tp.endswith("Boolean::<F>::FALSE"):
            return FALSE
        if tp == "ark_serialize::Flags::BIT_SIZE":
            a0 = (c.get("args") or ["?"])[0]
            m = re.match(r"^<(.*) as ark_serialize::Flags>::BIT_SIZE$", path or "")
            if m:
                a0 = m.group(1)
            return {"ark_serialize::EmptyFlags": lit(0)}.get(a0, mk("flags_bit_size", a0))
        # trait consts of the crate's own configs resolved through the trait (TECurveConfig::COEFF_A ...)
        inst = c.get("inst") or {}
        if inst.get("path") in I.prog.consts:
            return I.const_term(inst["path"])
        a0 = (c.get("args") or [None])[0]
        if a0 and c.get("trait"):
            guess = "<%s as %s>::%s" % (a0, c["trait"], last)
            if guess in I.prog.consts:
                return I.const_term(guess)
        return None

    # ---- sequences ---------------------------------------------------------------------------
    def concrete_seq(self, I, it):
        """list of item terms when the iterator is concretely known, else None"""
        if it.op == "struct" and it.args[0].endswith("ops::Range") or (it.op == "struct" and it.args[0] == "core::ops::Range"):
            d = dict(zip(it.args[1], it.args[2:]))
            a, b = d.get("start"), d.get("end")
            if a is not None and b is not None and Tm.is_lit(a) and Tm.is_lit(b):
                return [lit(i) for i in range(a.args[0], b.args[0])]
            return None
        if it.op == "range_incl" and Tm.is_lit(it.args[0]) and Tm.is_lit(it.args[1]):
            return [lit(i) for i in range(it.args[0].args[0], it.args[1].args[0] + 1)]
        if it.op == "rev":
            s = self.concrete_seq(I, it.args[0])
            return None if s is None else list(reversed(s))
        if it.op == "array":
            return list(it.args)
        if it.op == "iter_mut" and it.args[0].op == "placeref":
            pr = it.args[0]
            n = I.length_of_place(pr)
            if n is None:
                return None
            return [mk("placeref", pr.args[0], tuple(pr.args[1]) + (("i", lit(k)),)) for k in range(n)]
        if it.op == "iter":
            r = self.concrete_seq(I, it.args[0])
            if r is None and it.args[0].op not in ("iter", "rev", "zip", "enumerate", "iter_mut", "struct", "range_incl"):
                # an opaque array of statically known length (type-checked `[T; N]`): its items are the index terms
                n = I.length_of(it.args[0])
                if n is not None and n <= 16:
                    return [Tm.index(it.args[0], lit(k)) for k in range(n)]
            return r
        if it.op == "zip":
            a, b = self.concrete_seq(I, it.args[0]), self.concrete_seq(I, it.args[1])
            # a symbolic side with a statically known length (an array parameter / field): its items are index terms
            def items_of(sym):
                n = I.length_of(sym)
                if n is not None and n <= 16:
                    return [Tm.index(sym, lit(k)) for k in range(n)]
                return None
            if a is None:
                a = items_of(it.args[0])
            if b is None:
                b = items_of(it.args[1])
            if a is None or b is None:
                return None
            return [mk("tuple", x, y) for x, y in zip(a, b)]
        if it.op == "enumerate":
            a = self.concrete_seq(I, it.args[0])
            return None if a is None else [mk("tuple", lit(i), x) for i, x in enumerate(a)]
        if it.op not in ("struct", "map", "chain", "filter", "take", "skip", "chunks"):
            # an opaque array value of statically known length (type-checked `[T; N]`) iterated by value / by reference
            n = I.lengths.get(it)
            if n is not None and n <= 16:
                return [Tm.index(it, lit(k)) for k in range(n)]
        return None

    # ---- the table -------------------------------------------------------------------------------
    def summarize(self, ctx):
        tp = ctx.tpath
        key = ctx.key or ""
        name = tp.split("::")[-1]
        a = ctx.args
        s0 = sort_of(ctx.arg_ty(0)) if a else (None, "")
        if a and s0[0] is None and ctx.targs:
            s0 = sort_of(ctx.targs[0])

        if key in self.local:
            r = self.local[key](ctx)
            if r is not NotImplemented:
                return r
        r = self.core_summary(ctx, tp, key, name, a, s0)
        if r is not NotImplemented:
            return r
        if self.abstract_group:
            r = self.group_api(ctx, tp, key, name, a, s0)
            if r is not NotImplemented:
                return r
        # crate field API abstracted
        if self.abstract_fields:
            r = self.field_api(ctx, tp, key, name, a, s0)
            if r is not NotImplemented:
                return r
        r = self.ark_summary(ctx, tp, key, name, a, s0)
        if r is not NotImplemented:
            return r
        r = self.fiat_summary(ctx, tp, key, name, a, s0)
        if r is not NotImplemented:
            return r
        r = self.r1cs_summary(ctx, tp, key, name, a, s0)
        return r

    # ---- core / std / subtle / misc ------------------------------------------------------------
    def core_summary(self, ctx, tp, key, name, a, s0):
        I = ctx.I
        if tp in ("core::clone::Clone::clone", "core::borrow::Borrow::borrow", "core::convert::AsRef::as_ref",
                  "core::borrow::BorrowMut::borrow_mut", "core::convert::AsMut::as_mut") and not key.startswith("fields::") and not key.startswith("<fields::"):
            return a[0]
        if tp.startswith("core::ops::Deref::deref") or tp.startswith("core::ops::DerefMut::deref_mut"):
            if "once_cell::sync::Lazy" in key:
                return self.lazy_value(ctx, a[0])
            return a[0]
        if tp == "once_cell::sync::Lazy::<T, F>::new":
            return mk("lazy", a[0])
        if tp in ("core::cell::RefCell::<T>::new",):
            return a[0]
        if tp in ("core::cell::RefCell::<T>::borrow", "core::cell::RefCell::<T>::borrow_mut"):
            ctx.effect("refcell_" + name, a[0])
            return a[0]
        local_inst = bool((ctx.c.get("inst") or {}).get("local")) and ctx.I.prog.body(key) is not None
        if (tp == "core::convert::Into::into" or tp == "core::convert::From::from") and not local_inst:
            return self.conversion(ctx, tp, a)
        if (tp == "core::convert::TryInto::try_into" or tp == "core::convert::TryFrom::try_from") and not local_inst:
            return self.try_conversion(ctx, tp, a)
        if tp == "core::iter::IntoIterator::into_iter":
            return a[0]
        if tp in self.CALLBACKS and not (ctx.c.get("inst") or {}).get("local"):
            r = self.callback(ctx, tp, a)
            if r is not NotImplemented:
                return r
        if tp == "core::slice::<impl [T]>::iter_mut" and ctx.places and ctx.places[0] is not None:
            pl = ctx.places[0]
            return mk("iter_mut", mk("placeref", pl[0], tuple(pl[1])))
        if tp in ("core::slice::<impl [T]>::iter", "core::slice::<impl [T]>::iter_mut", "core::iter::Iterator::collect",
                  "ark_std::slice::<impl [T]>::to_vec", "ark_ff::vec::Vec::<T, A>::into_boxed_slice", "core::iter::Iterator::by_ref",
                  "core::iter::Iterator::copied", "core::iter::Iterator::cloned"):
            return a[0]
        if tp in ("core::slice::<impl [T]>::len", "ark_std::iterable::Iterable::len"):
            n = I.length_of(a[0], ctx.arg_exprs[0] if ctx.arg_exprs else None)
            if n is not None:
                return lit(n)
            m = re.search(r";\s*(\d+)\]$", ctx.arg_ty(0))
            if m:
                return lit(int(m.group(1)))
            if a[0].op == "array":
                return lit(len(a[0].args))
            return mk("len", a[0])
        if tp.endswith("Vec::<T, A>::len"):
            n = I.length_of(a[0])
            return lit(n) if n is not None else mk("len", a[0])
        if tp in ("core::slice::<impl [T]>::is_empty",) or tp.endswith("Vec::<T, A>::is_empty"):
            n = I.length_of(a[0], ctx.arg_exprs[0] if ctx.arg_exprs else None)
            return (TRUE if n == 0 else FALSE) if n is not None else eq(mk("len", a[0]), lit(0))
        if tp.endswith("Vec::<T>::with_capacity"):
            return mk("empty", "Vec")
        if tp.endswith("Vec::<T, A>::reserve") or tp.endswith("Vec::<T, A>::shrink_to_fit"):
            return UNIT
        if re.match(r"core::num::<impl u(8|16|32|64|128|size)>::pow$", tp):
            if Tm.is_lit(a[0]) and Tm.is_lit(a[1]):
                return lit(a[0].args[0] ** a[1].args[0])
            return mk("call", tp, a[0], a[1])        # an integer function of its arguments (folded by statics.fold when they become constants)
        if tp == "core::iter::Iterator::rev":
            if a[0].op == "rev":
                return a[0].args[0]
            return mk("rev", a[0])
        if tp == "core::iter::Iterator::zip":
            return mk("zip", a[0], a[1])
        if tp == "core::iter::Iterator::enumerate":
            return mk("enumerate", a[0])
        if tp == "core::iter::Iterator::map":
            # interpret the closure once on a generic item of the sequence (its construction sites and effects are facts)
            item = mk("item_of", a[0])
            r = I.apply_fn(a[1], [item], ctx.e, ctx.env, ctx.fr)
            if r is not None and a[1].op in ("closure", "fnref") and not (r[0].op == "apply"):
                return mk("seq_map_t", item, r[0], a[0])      # a closure or a named function applied to the generic item
            return mk("seq_map", a[1], a[0])
        if tp == "core::iter::once":
            return mk("array", a[0])
        if tp == "core::ops::RangeInclusive::<Idx>::new":
            return mk("range_incl", a[0], a[1])
        if tp in ("core::slice::<impl [T]>::chunks_exact_mut", "core::slice::<impl [T]>::chunks_mut") and ctx.places and ctx.places[0] is not None \
                and Tm.is_lit(a[1]) and a[1].args[0] > 0:
            pl = ctx.places[0]
            w = a[1].args[0]
            n = I.length_of(a[0], ctx.arg_exprs[0])
            if n is not None and n % w == 0 and n // w <= 16:
                return mk("array", *[mk("placeref", pl[0], tuple(pl[1]) + (("r", k * w, (k + 1) * w),)) for k in range(n // w)])
        if tp == "core::slice::<impl [T]>::rchunks":
            return mk("rchunks", a[0], a[1])      # chunks counted from the end of the slice; the short one (if any) comes last
        if tp in ("core::slice::<impl [T]>::chunks", "core::slice::<impl [T]>::chunks_exact"):
            n = I.length_of(a[0], ctx.arg_exprs[0] if ctx.arg_exprs else None)
            if n is not None and Tm.is_lit(a[1]) and a[1].args[0] > 0 and (name == "chunks_exact" or n % a[1].args[0] == 0) and n // a[1].args[0] <= 16:
                w = a[1].args[0]
                return mk("array", *[mk("chunk", a[0], w, i) for i in range(n // w)])
            return mk(name, a[0], a[1])
        if tp == "core::iter::Iterator::fold":
            return self.fold(ctx, a[0], a[1], a[2])
        if tp == "core::iter::DoubleEndedIterator::rfold":
            src = a[0].args[0] if a[0].op == "rev" else mk("rev", a[0])
            return self.fold(ctx, src, a[1], a[2])
        if tp == "core::iter::Iterator::try_fold" and a[2].op == "closure":
            # fold with early exit: the step yields Ok/Some(next accumulator) or the residual that ends the fold
            item = I.fresh("item")
            accs = I.fresh("acc")
            r_ = I.apply_fn(a[2], [accs, item], ctx.e, ctx.env, ctx.fr)
            step = r_[0] if r_ is not None else mk("bottom")
            tf = mk("try_fold_t", a[0], item, accs, a[1], step)
            ctx.effect("loop", tf)
            return tf
        if tp in ("core::iter::Iterator::sum", "core::iter::Iterator::product") and False:
            return NotImplemented
        if tp in ("ark_ff::vec::Vec::<T>::new", "alloc::vec::Vec::<T>::new", "hashbrown::HashMap::<K, V>::new"):
            return mk("empty", tp.split("::")[-3] if "Vec" in tp else "HashMap")
        if tp.endswith("Vec::<T, A>::push"):
            ctx.write(0, mk("vec_push", a[0], a[1]))
            return UNIT
        if tp.endswith("Vec::<T, A>::pop"):
            if a[0].op == "seq_map_t":
                # a vector built by `iter.map(f).collect()` over a concretely known sequence: materialise its elements
                item, body, src = a[0].args
                seq = self.concrete_seq(I, src)
                if seq is not None and len(seq) <= 16:
                    v = mk("empty", "Vec")
                    for x in seq:
                        v = mk("vec_push", v, Tm.subst(body, {item: x}))
                    a = [v] + list(a[1:])
            if a[0].op == "vec_push":
                ctx.write(0, a[0].args[0])
                return variant("Some", a[0].args[1])
            ctx.write(0, mk("vec_popped", a[0]))
            return mk("vec_pop", a[0])
        if tp.endswith("HashMap::<K, V, S, A>::insert"):
            ctx.write(0, mk("map_insert", a[0], a[1], a[2]))
            return mk("map_insert_old")
        if tp == "core::slice::<impl [T]>::reverse":
            ctx.write(0, a[0].args[0] if a[0].op == "rev" else mk("rev", a[0]))
            return UNIT
        if tp in ("core::iter::Iterator::cmp",):
            return mk("lex_cmp", a[0], a[1])
        if tp in ("core::iter::Iterator::partial_cmp",):
            return variant("Some", mk("lex_cmp", a[0], a[1]))
        if tp == "core::array::from_fn" and a and a[0].op == "closure":
            n = I.length_of(mk("bottom"), ctx.e if isinstance(ctx.e, dict) else None)
            if n is None:
                for t_ in ctx.targs or []:
                    if re.fullmatch(r"\d+", str(t_)):
                        n = int(t_)
            if n is not None and n <= 64:
                items = []
                for k in range(n):
                    r = I.apply_fn(a[0], [lit(k)], ctx.e, ctx.env, ctx.fr)
                    if r is None:
                        return NotImplemented
                    items.append(r[0])
                return mk("array", *items)
            if n is not None:
                # a long array: the same thing as (0..n).map(f) collected - one symbolic element
                rng = mk("struct", "core::ops::Range", ("start", "end"), lit(0), lit(n))
                item = mk("item_of", rng)
                r = I.apply_fn(a[0], [item], ctx.e, ctx.env, ctx.fr)
                if r is not None:
                    v = mk("seq_map_t", item, r[0], rng)
                    I.lengths[v] = n
                    return v
        if tp == "core::iter::Iterator::all" and len(a) == 2 and a[0].op == "zip" and a[1].op == "closure":
            # a.iter().zip(b.iter()).all(|(x, y)| x == y) over two sequences of the same statically known length is a == b
            X, Y = a[0].args[0], a[0].args[1]
            while X.op == "iter":
                X = X.args[0]
            while Y.op == "iter":
                Y = Y.args[0]
            nx, ny = I.length_of(X), I.length_of(Y)
            if nx is not None and nx == ny:
                sx, sy = I.fresh("zx"), I.fresh("zy")
                r = I.apply_fn(a[1], [mk("tuple", sx, sy)], ctx.e, ctx.env, ctx.fr)
                if r is not None and (r[0] is eq(sx, sy) or r[0] is eq(sy, sx)):
                    return eq(X, Y)
        if tp == "core::iter::Iterator::flat_map":
            item = mk("item_of", a[0])
            r = I.apply_fn(a[1], [item], ctx.e, ctx.env, ctx.fr)
            if r is not None and a[1].op == "closure":
                return mk("flat_map_t", item, r[0], a[0])
            return mk("flat_map", a[1], a[0])
        if tp == "core::slice::<impl [T]>::copy_from_slice":
            ctx.write(0, a[1])
            return UNIT
        if tp in ("core::slice::<impl [T]>::last_mut",):
            return variant("Some", mk("last", a[0]))
        # Option / Result plumbing
        if tp in ("core::option::Option::<T>::unwrap", "core::option::Option::<T>::expect"):
            ctx.panic(is_variant(a[0], "None"), name)
            return payload(a[0], "Some", 0)
        if tp in ("core::result::Result::<T, E>::unwrap", "core::result::Result::<T, E>::expect"):
            ctx.panic(is_variant(a[0], "Err"), name)
            return payload(a[0], "Ok", 0)
        if tp == "core::result::Result::<T, E>::unwrap_or":
            return ite(is_variant(a[0], "Ok"), payload(a[0], "Ok", 0), a[1])
        if tp == "core::option::Option::<T>::unwrap_or":
            return ite(is_variant(a[0], "Some"), payload(a[0], "Some", 0), a[1])
        if tp == "core::result::Result::<T, E>::ok":
            return ite(is_variant(a[0], "Ok"), variant("Some", payload(a[0], "Ok", 0)), variant("None"))
        if tp == "core::option::Option::<T>::ok_or":
            return ite(is_variant(a[0], "Some"), variant("Ok", payload(a[0], "Some", 0)), variant("Err", a[1]))
        if tp == "core::option::Option::<T>::is_some":
            return is_variant(a[0], "Some")
        if tp == "core::option::Option::<T>::is_none":
            return is_variant(a[0], "None")
        if tp == "core::result::Result::<T, E>::is_ok":
            return is_variant(a[0], "Ok")
        if tp == "core::result::Result::<T, E>::is_err":
            return is_variant(a[0], "Err")
        # ---- Option / Result / bool combinators (closures are applied under the condition in which they run) ----
        def under(cond, fn, args):
            env0 = dict(ctx.env)
            if cond is not TRUE:
                env0["$pc"] = env0["$pc"] + (cond,)
            r_ = I.apply_fn(fn, args, ctx.e, env0, ctx.fr)
            if r_ is None:
                return None
            for k_, v_ in r_[1].items():
                if k_ != "$pc" and v_ is not env0.get(k_):
                    old_ = ctx.env.get(k_)
                    ctx.env = dict(ctx.env)
                    ctx.env[k_] = v_ if (cond is TRUE or old_ is None) else ite(cond, v_, old_)
            return r_[0]
        m_ = re.match(r"core::(option::Option::<.*>|result::Result::<.*>)::(\w+)$", tp)
        if m_:
            is_opt = m_.group(1).startswith("option")
            okv, errv = ("Some", "None") if is_opt else ("Ok", "Err")
            meth = m_.group(2)
            x = a[0]
            c = is_variant(x, okv)
            good = payload(x, okv, 0)
            bad = variant("None") if is_opt else variant("Err", payload(x, "Err", 0))
            if meth == "and_then":
                if c is FALSE:
                    return x
                r_ = under(c, a[1], [good])
                return None if r_ is None else ite(c, r_, bad)
            if meth == "map":
                if c is FALSE:
                    return x
                r_ = under(c, a[1], [good])
                return None if r_ is None else ite(c, variant(okv, r_), bad)
            if meth == "map_err" and not is_opt:
                ce = not_(c)
                if ce is FALSE:
                    return x
                r_ = under(ce, a[1], [payload(x, "Err", 0)])
                return None if r_ is None else ite(c, variant("Ok", good), variant("Err", r_))
            if meth == "or_else":
                if c is TRUE:
                    return x
                r_ = under(not_(c), a[1], [] if is_opt else [payload(x, "Err", 0)])
                return None if r_ is None else ite(c, x, r_)
            if meth == "unwrap_or_else":
                r_ = under(not_(c), a[1], [] if is_opt else [payload(x, "Err", 0)])
                return None if r_ is None else ite(c, good, r_)
            if meth == "map_or":
                r_ = under(c, a[2], [good])
                return None if r_ is None else ite(c, r_, a[1])
            if meth == "map_or_else":
                r1 = under(not_(c), a[1], [] if is_opt else [payload(x, "Err", 0)])
                r2 = under(c, a[2], [good])
                return None if r1 is None or r2 is None else ite(c, r2, r1)
            if meth == "ok_or_else" and is_opt:
                r_ = under(not_(c), a[1], [])
                return None if r_ is None else ite(c, variant("Ok", good), variant("Err", r_))
            if meth == "filter" and is_opt:
                r_ = under(c, a[1], [good])
                return None if r_ is None else ite(and_(c, r_), x, variant("None"))
            if meth in ("or",):
                return ite(c, x, a[1])
            if meth in ("and",):
                return ite(c, a[1], bad)
            if meth in ("copied", "cloned", "as_ref", "as_mut", "as_deref"):
                return x
            if meth == "flatten" and is_opt:
                return ite(c, good, variant("None"))
            if meth == "err" and not is_opt:
                return ite(c, variant("None"), variant("Some", payload(x, "Err", 0)))
            if meth == "is_some_and" or meth == "is_ok_and":
                r_ = under(c, a[1], [good])
                return None if r_ is None else and_(c, r_)
        if tp == "core::bool::<impl bool>::then":
            r_ = under(a[0], a[1], [])
            return None if r_ is None else ite(a[0], variant("Some", r_), variant("None"))
        if tp == "core::bool::<impl bool>::then_some":
            return ite(a[0], variant("Some", a[1]), variant("None"))
        if tp == "core::ops::FnOnce::call_once" or tp == "core::ops::Fn::call" or tp == "core::ops::FnMut::call_mut":
            args = list(a[1].args) if a[1].op == "tuple" else ([] if a[1] is UNIT else [a[1]])
            r = I.apply_fn(a[0], args, ctx.e, ctx.env, ctx.fr)
            if r is None:
                return None
            ctx.env = r[1]
            return r[0]
        if tp == "core::ops::FromResidual::from_residual":
            return a[0]
        if tp.startswith("core::panicking::"):
            mac = (ctx.site.get("mac") or [])
            kind = "panic"
            for mn in mac:
                if mn in ("unimplemented", "unreachable", "todo", "assert", "assert_eq", "assert_ne", "panic", "debug_assert", "debug_assert_eq"):
                    kind = mn
            ctx.fr.out.panics.append((ctx.env["$pc"], dict(ctx.site, kind=kind)))
            return None
        if tp in ("core::default::Default::default",):
            rt = ctx.ret_ty()
            so = sort_of(rt)
            m = re.match(r"\[u8; (\d+)\]$", rt)
            if m:
                return mk("repeat", lit(0), int(m.group(1)))
            return NotImplemented
        # integers
        if tp == "core::num::<impl u64>::pow" and Tm.is_lit(a[0]) and Tm.is_lit(a[1]):
            return lit(a[0].args[0] ** a[1].args[0])
        if tp.startswith("core::slice::ChunksExact::") and name == "remainder" and a and a[0].op == "chunks_exact":
            return mk("chunks_rem", a[0].args[0], a[0].args[1])      # the short tail: bytes[len - len % n ..]
        if tp == "subtle::Choice::unwrap_u8":
            return Tm.choice_u8(a[0])
        m_ = re.match(r"core::num::<impl [ui](8|16|32|64|128|size)>::wrapping_(neg|sub)$", tp)
        if m_:
            # the all-ones / all-zeros mask of a 0/1 word: x.wrapping_neg(), 0.wrapping_sub(x)
            x = a[0] if m_.group(2) == "neg" else (a[1] if Tm.is_lit(a[0]) and a[0].args[0] == 0 and a[0].args[0] is not False else None)
            r = Tm.mask_of(x) if x is not None else None
            if r is not None:
                return r
        if tp == "core::num::<impl u64>::to_le_bytes":
            return mk("le_bytes_of_u64", a[0])
        if tp == "core::num::<impl u64>::from_le_bytes":
            return mk("u64_of_le_bytes", a[0])
        if tp == "core::ops::Shr::shr" and s0[0] == "int":
            return Tm.intop("shr", a[0], a[1])
        if tp == "core::convert::From::from" and False:
            return NotImplemented
        # equality on builtin aggregates
        if tp in ("core::cmp::PartialEq::eq", "core::cmp::PartialEq::ne") and len(a) == 2 and not (ctx.c.get("inst") or {}).get("local") \
                and all(isinstance(x, Tm.T) and x.op == "variant" and len(x.args) == 1 for x in a):
            # two field-less variants of an external enum with a derived PartialEq (AllocationMode, Ordering, ...): same variant or not
            r_ = TRUE if a[0].args[0] == a[1].args[0] else FALSE
            return r_ if name == "eq" else not_(r_)
        if tp in ("core::cmp::PartialEq::eq", "core::cmp::PartialEq::ne") and ("core::array" in key or "core::cmp::impls" in key or "BigInt" in key or s0[0] in ("int", "bool")):
            inner = ctx.arg_ty(0)
            r = self.eq_dispatch(ctx, a[0], a[1], inner)
            return r if name == "eq" else not_(r)
        if tp in ("core::cmp::Ord::cmp", "core::cmp::PartialOrd::partial_cmp") and s0[0] == "int" and len(a) == 2:
            v = mk("icmp", a[0], a[1])      # three-way comparison of two primitive integers
            return v if name == "cmp" else variant("Some", v)
        if tp in ("core::cmp::Ord::cmp", "core::cmp::PartialOrd::partial_cmp") and "core::array" in key:
            v = mk("lex_cmp", a[0], a[1])
            return v if name == "cmp" else variant("Some", v)
        if tp in ("core::cmp::PartialOrd::ge", "core::cmp::PartialOrd::gt", "core::cmp::PartialOrd::le", "core::cmp::PartialOrd::lt") and s0[0] == "bigint":
            return Tm.cmp(name, a[0], a[1])
        if tp == "core::hash::Hash::hash" and "core::array" in key:
            ctx.effect("hash_write", a[0])
            return UNIT
        if tp == "core::hash::Hasher::write":
            ctx.effect("hash_write", a[1])
            return UNIT
        # subtle
        if tp == "subtle::ConditionallySelectable::conditional_select" and s0[0] == "int":
            return ite(Tm.choice_true(a[2]), a[1], a[0])
        if tp in ("subtle::ConditionallySelectable::conditional_assign", "subtle::ConditionallySelectable::conditional_swap") \
                and not (ctx.c.get("inst") or {}).get("local") and len(a) == 3:
            # subtle's provided defaults (the type does not override them): in terms of the type's own conditional_select, which for every
            # type the crate passes here is the ITE the SELECT rules establish
            c_ = Tm.choice_true(a[2])
            ctx.write(0, ite(c_, a[1], a[0]))
            if name == "conditional_swap":
                ctx.write(1, ite(c_, a[0], a[1]))
            return UNIT
        if tp == "core::convert::From::from" and "subtle::Choice" in key:
            return a[0]
        if tp == "core::ops::Not::not" and s0[0] == "choice":
            return mk("choice_not", a[0])
        # rng / io
        if tp == "rand_core::RngCore::fill_bytes":
            ctx.write(1, mk("rng_bytes", a[0], I.fresh("rng")))
            return UNIT
        if tp == "ark_serialize::Read::read_exact":
            # reading n bytes from a slice of known length >= n cannot fail and yields its first n bytes
            src_n = I.length_of(a[0], ctx.arg_exprs[0])
            dst_n = I.length_of(a[1], ctx.arg_exprs[1])
            if src_n is not None and dst_n is not None:
                if src_n == dst_n:
                    ctx.write(1, a[0])
                    return variant("Ok", UNIT)
            nread = I.fresh("read")
            ctx.write(1, mk("read_bytes", a[0], nread))
            return mk("io_result", nread)
        if tp == "ark_serialize::Write::write_all":
            ctx.effect("write_all", a[1])
            return mk("io_result", I.fresh("write"))
        if tp == "hex::encode":
            return mk("hex", a[0])
        if tp.startswith("core::fmt::") or tp.startswith("ark_std::io::stdio"):
            ctx.effect("fmt", *a)
            return mk("fmt_result", *[x for x in a if isinstance(x, Tm.T)])
        if tp in ("core::mem::forget",):
            return UNIT
        if tp.startswith("tracing") or tp.startswith("tracing_core"):
            return mk("tracing")
        return NotImplemented

    # provided (default) trait methods of external traits that call back into an impl of this crate
    CALLBACKS = {
        "ark_serialize::CanonicalDeserialize::deserialize_compressed": ("ark_serialize::CanonicalDeserialize", "deserialize_with_mode",
                                                                       lambda a: [a[0], variant("Yes"), variant("Yes")]),
        "ark_serialize::CanonicalSerialize::serialize_compressed": ("ark_serialize::CanonicalSerialize", "serialize_with_mode",
                                                                   lambda a: [a[0], a[1], variant("Yes")]),
        "ark_serialize::CanonicalSerialize::compressed_size": ("ark_serialize::CanonicalSerialize", "serialized_size",
                                                              lambda a: [a[0], variant("Yes")]),
        "ark_r1cs_std::eq::EqGadget::enforce_equal": ("ark_r1cs_std::eq::EqGadget", "conditional_enforce_equal", lambda a: [a[0], a[1], TRUE]),
        "ark_r1cs_std::eq::EqGadget::enforce_not_equal": ("ark_r1cs_std::eq::EqGadget", "conditional_enforce_not_equal", lambda a: [a[0], a[1], TRUE]),
        "core::iter::Iterator::sum": ("core::iter::Sum", "sum", lambda a: [a[0]]),
        "core::iter::Iterator::product": ("core::iter::Product", "product", lambda a: [a[0]]),
    }

    def callback(self, ctx, tp, a):
        I = ctx.I
        trait, meth, mkargs = self.CALLBACKS[tp]
        targs = ctx.targs
        if not targs:
            return NotImplemented
        selfty = targs[0]
        cand = None
        if trait in ("core::iter::Sum", "core::iter::Product"):
            # Iterator::sum::<S>() : S is the second generic argument; impl `Sum<Item> for S`
            if len(targs) < 2:
                return NotImplemented
            selfty = targs[1]
            for (tr, st), im in I.prog.impl_index.items():
                if st == strip_lt(selfty) and tr.split("<")[0] == trait:
                    cand = im if cand is None else cand
        else:
            for (tr, st), im in I.prog.impl_index.items():
                if st == strip_lt(selfty) and tr.split("<")[0] == trait:
                    cand = im
        if cand is None:
            return NotImplemented
        if self.abstract_fields and self.abstract_glue and sort_of(selfty)[0] == "field":
            return NotImplemented
        path = None
        for it in cand["items"]:
            if it["name"] == meth:
                path = it["path"]
        if path is None or I.prog.body(path) is None:
            return NotImplemented
        c2 = {"path": trait + "::" + meth, "args": [selfty], "trait": trait, "inst": {"path": path, "local": True, "args": targs}}
        args = mkargs(a)
        exprs = list(ctx.arg_exprs) + [None] * (len(args) - len(ctx.arg_exprs))
        r = I.do_call(c2, args, exprs[:len(args)], ctx.e, ctx.env, ctx.fr)
        if r is None:
            return None
        ctx.env = r[1]
        return r[0]

    def eq_dispatch(self, ctx, x, y, ty):
        """`&A == &B` (blanket impl): dispatch to A's own PartialEq when that is an impl of this crate"""
        I = ctx.I
        t = strip_ref(strip_lt(ty))
        p = I.prog.find_impl_item("core::cmp::PartialEq", t, "eq") or I.prog.find_impl_item("core::cmp::PartialEq<%s>" % t, t, "eq")
        if p is not None and I.prog.body(p) is not None and not (self.abstract_fields and sort_of(t)[0] == "field"):
            c2 = {"path": "core::cmp::PartialEq::eq", "args": [t, t], "trait": "core::cmp::PartialEq", "inst": {"path": p, "local": True, "args": []}}
            r = I.do_call(c2, [x, y], [None, None], ctx.e, ctx.env, ctx.fr)
            if r is not None:
                ctx.env = r[1]
                return r[0]
        return eq(x, y)

    def lazy_value(self, ctx, x):
        I = ctx.I
        if x.op == "static":
            path = x.args[0]
            if path in I.static_cache:
                return I.static_cache[path]
            b = I.prog.body(path)
            if b is not None:
                # only scalar-like lazies are folded; structured ones (lookup tables) stay symbolic so that
                # rules can see which member is accessed
                m = re.match(r"^once_cell::sync::Lazy<(.*)>$", b.get("ty", ""))
                inner_ty = m.group(1) if m else b.get("ty", "")
                if sort_of(inner_ty)[0] not in ("field", "arkfp", "bigint", "int", "bool"):
                    I.static_cache[path] = mk("static_val", path)
                    return I.static_cache[path]
                I.static_cache[path] = mk("static_rec", path)
                from .engine import Frame
                f2 = Frame(path, ctx.fr.depth + 1, ctx.fr.out)
                r = I.expr(b["body"], {"$pc": ()}, f2)
                v = r[0] if r is not None else mk("bottom")
                if v.op == "lazy":
                    rr = I.apply_fn(v.args[0], [], b["body"], {"$pc": ()}, f2)
                    v = rr[0] if rr is not None else mk("bottom")
                I.static_cache[path] = v
                return v
        if x.op == "lazy":
            rr = ctx.I.apply_fn(x.args[0], [], ctx.e, ctx.env, ctx.fr)
            return rr[0] if rr is not None else mk("bottom")
        return mk("deref_lazy", x)

    def fold(self, ctx, it, init, f):
        I = ctx.I
        seq = self.concrete_seq(I, it)
        if seq is not None and len(seq) <= 16:
            acc = init
            for x in seq:
                r = I.apply_fn(f, [acc, x], ctx.e, ctx.env, ctx.fr)
                if r is None:
                    return None
                acc = r[0]
            return acc
        item = I.fresh("item")
        accs = I.fresh("acc")
        r = I.apply_fn(f, [accs, item], ctx.e, ctx.env, ctx.fr)
        nxt = r[0] if r is not None else mk("bottom")
        fo = mk("fold", it, item, (accs,), (init,), (nxt,))
        ctx.effect("loop", fo)
        return mk("proj", fo, 0)

    # ---- conversions ---------------------------------------------------------------------------
    def conversion(self, ctx, tp, a):
        I = ctx.I
        targs = ctx.targs
        if tp.endswith("Into::into"):
            src, dst = (targs + ["?", "?"])[:2]
        else:
            dst, src = (targs + ["?", "?"])[:2]
        if strip_lt(src) == strip_lt(dst):
            return a[0]
        if self.abstract_fields and sort_of(dst)[0] == "field" and sort_of(src)[0] in ("int", "bool"):
            if Tm.is_lit(a[0]):
                return felem(sort_of(dst)[1], int(a[0].args[0]))
            if self.abstract_glue:
                return mk("of_int", sort_of(dst)[1], a[0])
        # a local From impl?
        p = I.prog.find_impl_item("core::convert::From<%s>" % src, dst, "from")
        if p is not None and I.prog.body(p) is not None:
            c2 = {"path": "core::convert::From::from", "args": [dst, src], "trait": "core::convert::From",
                  "inst": {"path": p, "local": True, "args": []}}
            r = I.do_call(c2, [a[0]], [ctx.arg_exprs[0]], ctx.e, ctx.env, ctx.fr)
            if r is None:
                return None
            ctx.env = r[1]
            return r[0]
        ss, ds = sort_of(src), sort_of(dst)
        if self.abstract_fields and ds[0] == "field" and ss[0] in ("int", "bool"):
            if Tm.is_lit(a[0]):
                return felem(ds[1], int(a[0].args[0]))
            if self.abstract_glue:
                return mk("of_int", ds[1], a[0])
        if (ss[0], ds[0]) in (("teproj", "teaff"), ("teaff", "teproj")):
            ctx.effect("repr_change", a[0])
            return mk("to_" + ds[0], a[0])
        if ss[0] == "int" and ds[0] == "int":
            return a[0]
        if ss[0] == "bool" and ds[0] == "int":
            return ite(a[0], lit(1), lit(0)) if not Tm.is_lit(a[0]) else lit(1 if a[0].args[0] else 0)
        if ss[0] == "int" and ds[0] == "choice":
            return a[0]
        if ss[0] == "arkfp" and ds[0] == "bigint":
            return mk("canon_int", a[0])
        if ss[0] == "int" and ds[0] == "bigint":
            return mk("bigint_of", a[0])
        return mk("convert", src, dst, a[0])

    def try_conversion(self, ctx, tp, a):
        I = ctx.I
        targs = ctx.targs
        if tp.endswith("TryInto::try_into"):
            src, dst = (targs + ["?", "?"])[:2]
        else:
            dst, src = (targs + ["?", "?"])[:2]
        p = I.prog.find_impl_item("core::convert::TryFrom<%s>" % src, dst, "try_from")
        if p is not None and I.prog.body(p) is not None:
            c2 = {"path": "core::convert::TryFrom::try_from", "args": [dst, src], "trait": "core::convert::TryFrom",
                  "inst": {"path": p, "local": True, "args": []}}
            r = I.do_call(c2, [a[0]], [ctx.arg_exprs[0]], ctx.e, ctx.env, ctx.fr)
            if r is None:
                return None
            ctx.env = r[1]
            return r[0]
        # slice -> array: succeeds iff the length matches
        m = re.match(r"\[(\w+); (\d+)\]$", strip_lt(dst))
        if m and (strip_lt(src).startswith("&[") or "Box<[" in src or strip_lt(src).startswith("[")):
            n = int(m.group(2))
            ln = self_len(a[0], src)
            c = eq(ln, lit(n))
            return ite(c, variant("Ok", a[0]), variant("Err", mk("TryFromSliceError")))
        return mk("try_convert", src, dst, a[0])

    # ---- arkworks (fields, curves, serialisation) ---------------------------------------------
    def ark_summary(self, ctx, tp, key, name, a, s0):
        I = ctx.I
        so = s0[0]
        # --- prime field arithmetic on ark_ff::Fp
        if so == "arkfp":
            f = s0[1]
            if tp == "core::ops::Add::add":
                return r_add(a[0], a[1])
            if tp == "core::ops::Sub::sub":
                return r_sub(a[0], a[1])
            if tp == "core::ops::Mul::mul":
                return r_mul(a[0], a[1])
            if tp == "core::ops::Neg::neg":
                return r_neg(a[0])
            if tp == "ark_ff::Field::square":
                return r_mul(a[0], a[0])
            if tp == "ark_ff::Field::double":
                return r_add(a[0], a[0])
            if tp == "ark_ff::Field::inverse":
                return opt_inverse(a[0], f)
            if tp == "core::cmp::PartialEq::eq":
                return eq(a[0], a[1])
            if tp == "ark_ff::Field::pow":
                return mk("pow", a[0], a[1])
            if tp == "ark_serialize::CanonicalSerialize::serialize_compressed":
                ctx.write(1, mk("canon_bytes", a[0]))
                return variant("Ok", UNIT)
            if tp == "ark_ff::PrimeField::into_bigint":
                return mk("canon_int", a[0])
        if tp == "ark_ff::PrimeField::from_le_bytes_mod_order" and sort_of(ctx.ret_ty())[0] == "arkfp":
            return mk("from_le_bytes_mod_order", sort_of(ctx.ret_ty())[1], a[0])
        if tp.endswith("from_sign_and_limbs"):
            cfg = (ctx.targs or ["?"])[0]
            f = ARKCFG.get(cfg)
            if f and a[1].op == "array" and all(Tm.is_lit(x) for x in a[1].args) and a[0] is TRUE:
                n = K.limbs_to_int([x.args[0] for x in a[1].args], 64)
                if n >= K.MODULI[f]:
                    ctx.effect("montfp_literal_not_reduced", lit(n), mk("strlit", f))
                return felem(f, n)
            return mk("from_sign_and_limbs", *a)
        if tp.endswith("montgomery_backend::<impl ark_ff::Fp<ark_ff::MontBackend<T, N>, N>>::new"):
            f = ARKCFG.get((ctx.targs or ["?"])[0], "?")
            return mk("fp_new_canonical", f, a[0])
        if tp.endswith("montgomery_backend::<impl ark_ff::Fp<ark_ff::MontBackend<T, N>, N>>::new_unchecked"):
            f = ARKCFG.get((ctx.targs or ["?"])[0], "?")
            return mk("fp_new_montgomery", f, a[0])
        if tp == "ark_ff::BigInt::<N>::new" or (tp == "ark_ff::BigInt" and a):
            return mk("struct", "ark_ff::BigInt", ("0",), a[0])
        if tp == "ark_ff::BigInt::<N>::one":
            return mk("struct", "ark_ff::BigInt", ("0",), mk("bigint_one"))
        if tp == "ark_ff::BigInteger::to_bytes_le":
            return mk("bigint_le_bytes", a[0])
        # --- twisted Edwards points (arkworks)
        if tp.startswith("ark_ec::twisted_edwards::Projective::<P>::new"):
            if tp.endswith("::new"):
                ctx.effect("te_new_checked", *a)
            return teproj(a[0], a[1], a[2], a[3])
        if tp.startswith("ark_ec::twisted_edwards::Affine::<P>::new"):
            ctx.effect("te_affine_new", *a)
            return teaff(a[0], a[1])
        if tp == "ark_ec::twisted_edwards::Affine::<P>::zero":
            return mk("gzero")
        if tp == "ark_ff::Zero::zero" and sort_of(ctx.ret_ty())[0] in ("teproj", "teaff"):
            return mk("gzero")
        if tp == "ark_ff::Zero::is_zero" and so in ("teproj", "teaff"):
            return mk("te_is_exact_zero", a[0])
        if so in ("teproj", "teaff"):
            if tp == "core::ops::Add::add":
                return mk("gadd", a[0], a[1])
            if tp == "core::ops::Sub::sub":
                return mk("gadd", a[0], mk("gneg", a[1]))
            if tp == "core::ops::Neg::neg":
                return mk("gneg", a[0])
            if tp == "core::ops::AddAssign::add_assign":
                ctx.write(0, mk("gadd", a[0], a[1]))
                return UNIT
            if tp == "core::ops::SubAssign::sub_assign":
                ctx.write(0, mk("gadd", a[0], mk("gneg", a[1])))
                return UNIT
            if tp == "core::ops::MulAssign::mul_assign":
                ctx.write(0, mk("gsmul", a[0], a[1]))
                return UNIT
            if tp == "core::ops::Mul::mul":
                return mk("gsmul", a[0], a[1])
            if tp == "ark_ec::Group::double_in_place":
                ctx.write(0, mk("gdbl", a[0]))
                return mk("gdbl", a[0])
            if tp == "ark_ec::Group::double":
                return mk("gdbl", a[0])
            if tp in ("ark_ec::Group::mul_bigint", "ark_ec::AffineRepr::mul_bigint"):
                return mk("gsmulbig", a[0], a[1])
            if tp == "core::cmp::PartialEq::eq":
                return mk("te_exact_eq", a[0], a[1])
            if tp == "core::hash::Hash::hash":
                ctx.effect("hash_write", mk("te_coords", a[0]))
                return UNIT
            if tp == "ark_ec::AffineRepr::xy":
                return mk("te_xy", a[0])
            if tp == "ark_ec::AffineRepr::into_group" or tp == "ark_ec::CurveGroup::into_affine":
                return mk("to_" + ("teproj" if "into_group" in tp else "teaff"), a[0])
        if tp == "ark_ec::CurveGroup::normalize_batch" and "Projective<P>" in key:
            return mk("seq_map", mk("fn", "to_teaff"), a[0])
        if tp == "ark_ec::ScalarMul::batch_convert_to_mul_base" and "Projective<P>" in key:
            return mk("seq_map", mk("fn", "to_teaff"), a[0])
        if tp == "ark_ec::AffineRepr::from_random_bytes" and "Affine<P>" in key:
            return mk("te_from_random_bytes", a[0])
        if tp == "ark_ff::UniformRand::rand":
            return mk("uniform_rand", ctx.ret_ty(), I.fresh("rand"))
        if tp == "ark_std::rand::Rng::sample":
            return mk("rng_sample", ctx.ret_ty(), I.fresh("sample"))
        flagty = (ctx.targs or [""])[0]
        m = re.match(r"^<(.*) as ark_serialize::Flags>::", key)
        if m:
            flagty = m.group(1)
        if tp == "ark_serialize::Flags::u8_bitmask":
            if flagty == "ark_serialize::EmptyFlags":
                return lit(0)
        if tp == "ark_serialize::Flags::from_u8_remove_flags":
            if flagty == "ark_serialize::EmptyFlags":
                return variant("Some", mk("struct", "ark_serialize::EmptyFlags", ()))
        if tp == "ark_ff::BigInteger::mul2":
            ctx.write(0, mk("bigint_mul2", a[0]))
            return mk("carry")
        return NotImplemented

    # ---- fiat-crypto generated primitives (bodies are not analysed: Coq-proved by their generator) ------
    def fiat_summary(self, ctx, tp, key, name, a, s0):
        m = re.match(r"^fields::(fq|fr|fp)::u32::fiat::(fq|fr|fp)_(\w+)$", key)
        if not m:
            return NotImplemented
        mod, pref, fn = m.groups()
        ctx.effect("fiat_call", mk("strlit", mod), mk("strlit", pref), mk("strlit", fn))
        ME = "fields::%s::u32::fiat::%sMontgomeryDomainFieldElement" % (mod, pref.capitalize())
        NM = "fields::%s::u32::fiat::%sNonMontgomeryDomainFieldElement" % (mod, pref.capitalize())

        def elem_m(x):      # element denoted by a Montgomery-domain struct value
            raw = field(x, "0")
            if raw.op == "mont":
                return raw.args[0]
            return mk("unmont", raw)

        def elem_n(x):
            raw = field(x, "0")
            if raw.op == "canon32":
                return raw.args[0]
            return mk("of_canon_limbs32", raw)

        def me(e):
            return mk("struct", ME, ("0",), mk("mont", e))

        def nm(e):
            return mk("struct", NM, ("0",), mk("canon32", e))
        if fn in ("add", "sub", "mul"):
            op = {"add": r_add, "sub": r_sub, "mul": r_mul}[fn]
            ctx.write(0, me(op(elem_m(a[1]), elem_m(a[2]))))
            return UNIT
        if fn == "square":
            ctx.write(0, me(r_mul(elem_m(a[1]), elem_m(a[1]))))
            return UNIT
        if fn == "opp":
            ctx.write(0, me(r_neg(elem_m(a[1]))))
            return UNIT
        if fn == "to_montgomery":
            ctx.write(0, me(elem_n(a[1])))
            return UNIT
        if fn == "from_montgomery":
            ctx.write(0, nm(elem_m(a[1])))
            return UNIT
        if fn == "from_bytes":
            # raw little-endian limbs of the byte string (any integer < 2^(8*len): canonical domain, possibly >= p)
            ctx.write(0, mk("canon32", mk("from_le_bytes_mod_order", mod, a[1])))
            return UNIT
        if fn == "to_bytes":
            raw = a[1]
            ctx.write(0, mk("canon_bytes", raw.args[0]) if raw.op == "canon32" else mk("bytes_of_limbs32", raw))
            return UNIT
        if fn == "nonzero":
            raw = a[1]
            ctx.write(0, ite(eq(raw.args[0], felem(mod, 0)), lit(0), mk("nonzero_word", raw)) if raw.op == "mont" else mk("nonzero_word", raw))
            return UNIT
        if fn == "selectznz":
            ctx.write(0, ite(ne(a[1], lit(0)), a[3], a[2]))
            return UNIT
        if fn == "set_one":
            ctx.write(0, me(felem(mod, 1)))
            return UNIT
        if fn in ("msat", "divstep_precomp"):
            ctx.write(0, mk("fiat_" + fn, mod))
            return UNIT
        if fn == "divstep":
            v = mk("fiat_divstep", mod, *a[5:])
            for i in range(5):
                ctx.write(i, mk("out", v, i))
            return UNIT
        return NotImplemented

    # ---- the crate's own field API, abstracted ------------------------------------------------
    FIELD_TRAITS = {"core::ops::Add::add": "add", "core::ops::Sub::sub": "sub", "core::ops::Mul::mul": "mul", "core::ops::Div::div": "div",
                    "core::ops::Neg::neg": "neg", "core::ops::AddAssign::add_assign": "add=", "core::ops::SubAssign::sub_assign": "sub=",
                    "core::ops::MulAssign::mul_assign": "mul=", "core::ops::DivAssign::div_assign": "div="}

    def field_api(self, ctx, tp, key, name, a, s0):
        I = ctx.I
        # is this call part of the crate's field API, and for which field?
        inst = ctx.c.get("inst") or {}
        f = None
        cand = [inst.get("impl_self"), ctx.c.get("impl_self")]
        for cs in cand:
            if cs and sort_of(cs)[0] == "field":
                f = sort_of(cs)[1]
                break
        if f is None and (key.startswith("fields::") or key.startswith("<fields::")):
            m = re.search(r"fields::(fq|fr|fp)::", key)
            f = m.group(1) if m else None
        if f is None and not inst.get("local") and ctx.targs and sort_of(ctx.targs[0])[0] == "field" and ctx.c.get("trait"):
            f = sort_of(ctx.targs[0])[1]      # provided trait method with Self = a crate field
        if f is None:
            return NotImplemented
        if not self.abstract_glue and name in self.GLUE:
            # glue mode: the hand-written conversion layer is interpreted, only arithmetic and the wrapper
            # primitives (from_raw_bytes, to_bytes_le, to_le_limbs, from_le_limbs, from_montgomery_limbs) stay abstract
            if not (name == "from" and sort_of(ctx.arg_ty(0))[0] in ("int", "bool") and Tm.is_lit(a[0])):
                return NotImplemented
        op = self.FIELD_TRAITS.get(tp)
        if op is None and name in ("add", "sub", "mul", "neg") and re.search(r"wrapper::F[qrp]::" + name + "$", key):
            op = name
        if op:
            x = a[0]
            y = a[1] if len(a) > 1 else None
            if op == "neg":
                return r_neg(x)
            if y is not None and sort_of(ctx.arg_ty(1))[0] not in ("field", None):
                return NotImplemented
            table = {"add": r_add, "sub": r_sub, "mul": r_mul}
            if op in table:
                return table[op](x, y)
            if op == "div":
                ctx.panic(eq(y, felem(f, 0)), "division by zero (inverse().unwrap())")
                return r_mul(x, r_inv(y))
            if op.endswith("="):
                base = op[:-1]
                v = r_mul(x, r_inv(y)) if base == "div" else table[base](x, y)
                ctx.write(0, v)
                return UNIT
        if name == "square" and len(a) == 1:
            return r_mul(a[0], a[0])
        if name == "double" and len(a) == 1:
            return r_add(a[0], a[0])
        if name == "inverse" and len(a) == 1:
            return opt_inverse(a[0], f)
        if name in ("square_in_place", "double_in_place", "neg_in_place"):
            v = {"square_in_place": r_mul(a[0], a[0]), "double_in_place": r_add(a[0], a[0]), "neg_in_place": r_neg(a[0])}[name]
            ctx.write(0, v)
            return v
        if name == "inverse_in_place":
            z = eq(a[0], felem(f, 0))
            ctx.write(0, ite(z, a[0], r_inv(a[0])))
            return ite(z, variant("None"), variant("Some", r_inv(a[0])))
        if name in ("pow", "power") and len(a) == 2:
            return mk("pow", a[0], a[1])
        if name in ("is_zero",) and len(a) == 1:
            return eq(a[0], felem(f, 0))
        if name == "is_one" and len(a) == 1:
            return eq(a[0], felem(f, 1))
        if name == "zero" and not a:
            return felem(f, 0)
        if name == "one" and not a:
            return felem(f, 1)
        if tp == "core::cmp::PartialEq::eq":
            return eq(a[0], a[1])
        if tp == "core::cmp::PartialEq::ne":
            return ne(a[0], a[1])
        if name == "clone" or tp == "core::clone::Clone::clone":
            return a[0]
        if tp == "core::convert::From::from" or name == "from":
            src = sort_of(ctx.arg_ty(0))
            if src[0] in ("int", "bool"):
                if Tm.is_lit(a[0]):
                    return felem(f, int(a[0].args[0]))
                return mk("of_int", f, a[0])
            return NotImplemented
        if name in ("sqrt_ratio_zeta", "non_arkworks_sqrt_ratio_zeta"):
            self.sqrt_routines.append((name, ctx.site))
            ctx.effect("isqrt_call", mk("strlit", name), a[0], a[1])
            return mk("tuple", mk("isqrt_sq", a[0], a[1]), mk("isqrt_v", a[0], a[1]))
        if name == "conditional_select":
            return ite(Tm.choice_true(a[2]), a[1], a[0])
        if name == "ct_eq":
            return eq(a[0], a[1])
        if name == "to_le_limbs":
            return mk("canon_limbs", a[0])
        if name in ("to_bytes_le", "to_bytes"):
            return mk("canon_bytes", a[0])
        if name == "into_bigint":
            return mk("struct", "ark_ff::BigInt", ("0",), mk("canon_limbs", a[0]))
        if name == "from_bytes_checked":
            c = mk("is_canonical", f, a[0])
            return ite(c, variant("Ok", mk("from_canon_bytes", f, a[0])), variant("Err", variant("InvalidEncoding")))
        if tp == "ark_serialize::CanonicalDeserialize::deserialize_compressed" or name == "deserialize_compressed":
            c = mk("is_canonical", f, a[0])
            return ite(c, variant("Ok", mk("from_canon_bytes", f, a[0])), variant("Err", mk("SerializationError")))
        if tp == "ark_serialize::CanonicalSerialize::serialize_compressed" or name == "serialize_compressed":
            ctx.write(1, mk("canon_bytes", a[0]))
            return variant("Ok", UNIT)
        if name == "serialized_size":
            return lit((K.MODULI[f].bit_length() + 7) // 8)
        if name in ("from_le_bytes_mod_order", "from_be_bytes_mod_order"):
            return mk(name, f, a[0])
        if name == "from_raw_bytes":
            return mk("from_le_bytes_mod_order", f, a[0])
        if name == "from_le_limbs":
            return mk("from_le_limbs", f, a[0])
        if name == "from_montgomery_limbs":
            return mk("from_montgomery_limbs", f, a[0])
        if name == "rand":
            return mk("field_rand", f, ctx.I.fresh("rand"))
        if name in ("sum", "product"):
            init = felem(f, 0 if name == "sum" else 1)
            fo = mk("fold", a[0], mk("sym", "item"), (mk("sym", "acc"),), (init,), ((r_add if name == "sum" else r_mul)(mk("sym", "acc"), mk("sym", "item")),))
            return mk("proj", fo, 0)
        # the sign convention of Fq (justified by C01's SIGN rule on the resolved methods, whichever of them the impl defines)
        if name in ("is_nonnegative",) and "sign" in key:
            return not_(sign(a[0]))
        if name == "is_negative" and "sign::Sign" in key:
            return sign(a[0])
        if name == "abs" and "sign::Sign" in key:
            return ite(sign(a[0]), r_neg(a[0]) if "r_neg" in globals() else mk("neg", a[0]), a[0])
        if name in ("cmp", "partial_cmp"):
            v = mk("int_cmp", mk("canon_int", a[0]), mk("canon_int", a[1]))
            return v if name == "cmp" else variant("Some", v)
        if name == "hash":
            ctx.effect("hash_write", mk("canon_bytes", a[0]))
            return UNIT
        if name == "zeroize":
            return UNIT
        if name == "default":
            return felem(f, 0)
        if name in ("legendre", "sqrt", "fmt", "from_str", "from_base_prime_field_elems", "from_random_bytes_with_flags",
                    "serialize_with_flags", "deserialize_with_flags", "serialize_with_mode", "deserialize_with_mode",
                    "frobenius_map_in_place", "characteristic", "extension_degree", "to_base_prime_field_elements",
                    "from_base_prime_field", "get_root_of_unity", "check", "from_bigint", "is_sentinel"):
            v = mk("field_fn", name, *a)
            return v
        return NotImplemented

    # ---- the crate's own group operators, abstracted (justified by C04's obligations) --------------
    def group_api(self, ctx, tp, key, name, a, s0):
        inst = ctx.c.get("inst") or {}
        if not inst.get("local"):
            return NotImplemented
        sorts = [sort_of(ctx.arg_ty(i))[0] for i in range(len(a))]
        pts = ("element", "affinepoint")
        if tp in ("core::ops::Add::add", "core::ops::Sub::sub") and sorts[0] in pts and sorts[1] in pts:
            return mk("gadd", a[0], a[1] if tp.endswith("add") else mk("gneg", a[1]))
        if tp == "core::ops::Neg::neg" and sorts[0] in pts:
            return mk("gneg", a[0])
        if tp in ("core::ops::AddAssign::add_assign", "core::ops::SubAssign::sub_assign") and sorts[0] in pts and sorts[1] in pts:
            ctx.write(0, mk("gadd", a[0], a[1] if "Add" in tp else mk("gneg", a[1])))
            return UNIT
        if tp == "core::ops::Mul::mul" and ((sorts[0] in pts and sorts[1] == "field") or (sorts[0] == "field" and sorts[1] in pts)):
            pt, sc = (a[0], a[1]) if sorts[0] in pts else (a[1], a[0])
            return mk("gsmul", pt, sc)
        if name == "double" and len(a) == 1 and sorts[0] == "element" and "min_curve" in key:
            return mk("gdbl", a[0])
        if name == "conditional_select" and sorts[0] == "element":
            return ite(Tm.choice_true(a[2]), a[1], a[0])
        return NotImplemented

    # ---- r1cs-std ---------------------------------------------------------------------------------
    def r1cs_summary(self, ctx, tp, key, name, a, s0):
        I = ctx.I
        so = s0[0]
        if so == "fvar" or sort_of(ctx.ret_ty())[0] == "fvar" or "FpVar<F>" in key:
            if tp == "core::ops::Add::add":
                return r_add(a[0], a[1])
            if tp == "core::ops::Sub::sub":
                return r_sub(a[0], a[1])
            if tp == "core::ops::Mul::mul":
                return r_mul(a[0], a[1])
            if tp == "core::ops::MulAssign::mul_assign":
                ctx.write(0, r_mul(a[0], a[1]))
                return UNIT
            if tp == "core::ops::AddAssign::add_assign":
                ctx.write(0, r_add(a[0], a[1]))
                return UNIT
            if tp == "core::ops::SubAssign::sub_assign":
                ctx.write(0, r_sub(a[0], a[1]))
                return UNIT
            if tp == "ark_r1cs_std::fields::FieldVar::square":
                return variant("Ok", r_mul(a[0], a[0]))
            if tp == "ark_r1cs_std::fields::FieldVar::double":
                return variant("Ok", r_add(a[0], a[0]))
            if tp == "ark_r1cs_std::fields::FieldVar::negate":
                return variant("Ok", r_neg(a[0]))
            if tp == "ark_r1cs_std::fields::FieldVar::inverse":
                ctx.effect("enforce_invertible", a[0])
                return variant("Ok", r_inv(a[0]))
            if tp == "ark_r1cs_std::fields::FieldVar::one":
                return felem("fq", 1)
            if tp == "ark_r1cs_std::fields::FieldVar::zero":
                return felem("fq", 0)
            if tp == "ark_r1cs_std::fields::FieldVar::constant":
                return a[0]
            if tp == "ark_r1cs_std::eq::EqGadget::is_eq":
                return variant("Ok", eq(a[0], a[1]))
            if tp == "ark_r1cs_std::fields::FieldVar::is_zero":
                return variant("Ok", eq(a[0], felem("fq", 0)))          # default body: self.is_eq(&Self::zero())
            if tp == "ark_r1cs_std::fields::FieldVar::is_one":
                return variant("Ok", eq(a[0], felem("fq", 1)))
            if tp == "ark_r1cs_std::eq::EqGadget::is_neq":
                return variant("Ok", ne(a[0], a[1]))
            if tp == "ark_r1cs_std::eq::EqGadget::enforce_equal":
                ctx.effect("enforce_equal", a[0], a[1])
                return variant("Ok", UNIT)
            if tp == "ark_r1cs_std::eq::EqGadget::conditional_enforce_equal":
                if a[2] is TRUE:
                    ctx.effect("enforce_equal", a[0], a[1])       # the unconditional form, spelled out (it is the default body of enforce_equal)
                else:
                    ctx.effect("cond_enforce_equal", a[0], a[1], a[2])
                return variant("Ok", UNIT)
            if tp == "ark_r1cs_std::select::CondSelectGadget::conditionally_select":
                return variant("Ok", ite(a[0], a[1], a[2]))
            if tp == "ark_r1cs_std::ToBitsGadget::to_bits_le":
                return variant("Ok", mk("bits_le", a[0]))
            if tp == "ark_r1cs_std::R1CSVar::value":
                return variant("Ok", mk("value_of", a[0]))
            if tp == "ark_r1cs_std::R1CSVar::cs":
                return mk("cs")
        if so == "boolvar" or "Boolean<F>" in key or "Boolean::<F>" in tp:
            if tp.endswith("Boolean::<F>::and"):
                return variant("Ok", and_(a[0], a[1]))
            if tp.endswith("Boolean::<F>::or"):
                return variant("Ok", or_(a[0], a[1]))
            if tp.endswith("Boolean::<F>::not"):
                return not_(a[0])
            if tp.endswith("Boolean::<F>::constant"):
                return a[0]
            if tp.endswith("Boolean::<F>::select"):
                return variant("Ok", ite(a[0], a[1], a[2]))
            if tp == "ark_r1cs_std::eq::EqGadget::is_eq":
                return variant("Ok", eq(a[0], a[1]))
            if tp == "ark_r1cs_std::eq::EqGadget::enforce_equal":
                ctx.effect("enforce_equal", a[0], a[1])
                return variant("Ok", UNIT)
            if tp == "ark_r1cs_std::eq::EqGadget::conditional_enforce_equal":
                if a[2] is TRUE:
                    ctx.effect("enforce_equal", a[0], a[1])       # the unconditional form, spelled out (it is the default body of enforce_equal)
                else:
                    ctx.effect("cond_enforce_equal", a[0], a[1], a[2])
                return variant("Ok", UNIT)
            if tp == "ark_r1cs_std::R1CSVar::value":
                return variant("Ok", mk("value_of", a[0]))
        if tp in ("ark_r1cs_std::alloc::AllocVar::new_witness", "ark_r1cs_std::alloc::AllocVar::new_input",
                  "ark_r1cs_std::alloc::AllocVar::new_constant", "ark_r1cs_std::alloc::AllocVar::new_variable"):
            return self.alloc(ctx, tp, key, name, a)
        if tp == "ark_r1cs_std::groups::CurveVar::new_variable_omit_prime_order_check" and "AffineVar<P, F>" in key:
            mode = a[2]
            r = I.apply_fn(a[1], [], ctx.e, ctx.env, ctx.fr)
            val = r[0] if r is not None else mk("bottom")
            okv = payload(val, "Ok", 0)
            n = mk("alloc_id", I.fresh("alloc"))
            ctx.effect("alloc", mode, mk("strlit", "affine_point_unchecked"), okv, n)
            cmode = mode.op == "variant" and mode.args[0] == "Constant"
            v = okv if cmode else mk("allocated", mode, mk("strlit", "affine"), n, okv)
            return ite(is_variant(val, "Ok"), variant("Ok", v), variant("Err", payload(val, "Err", 0)))
        so_r = sort_of(ctx.ret_ty())[0]
        if so == "affvar" or "AffineVar<P, F>" in key or "AffineVar::<P, F>" in tp:
            if tp.endswith("AffineVar::<P, F>::new"):
                return teaff(a[0], a[1])
            if tp == "core::ops::Add::add":
                return mk("gadd", a[0], a[1])
            if tp == "core::ops::Sub::sub":
                return mk("gadd", a[0], mk("gneg", a[1]))
            if tp == "core::ops::AddAssign::add_assign":
                ctx.write(0, mk("gadd", a[0], a[1]))
                return UNIT
            if tp == "core::ops::SubAssign::sub_assign":
                ctx.write(0, mk("gadd", a[0], mk("gneg", a[1])))
                return UNIT
            if tp == "ark_r1cs_std::groups::CurveVar::negate":
                return variant("Ok", mk("gneg", a[0]))
            if tp == "ark_r1cs_std::groups::CurveVar::double_in_place":
                ctx.write(0, mk("gdbl", a[0]))
                return variant("Ok", UNIT)
            if tp == "ark_r1cs_std::groups::CurveVar::zero":
                return mk("gzero")
            if tp == "ark_r1cs_std::groups::CurveVar::constant":
                return a[0]
            if tp == "ark_r1cs_std::R1CSVar::cs":
                return mk("cs")
            if tp in ("ark_r1cs_std::ToBitsGadget::to_bits_le", "ark_r1cs_std::ToBytesGadget::to_bytes"):
                return variant("Ok", mk(name, a[0]))
        if tp in ("ark_r1cs_std::ToBitsGadget::to_bits_le", "ark_r1cs_std::ToBytesGadget::to_bytes") and "Vec<" in key:
            return variant("Ok", a[0])
        if tp == "ark_relations::r1cs::Namespace::<F>::new" or tp.endswith("ConstraintSystemRef::<F>::ns"):
            return mk("cs")
        if tp == "ark_r1cs_std::ToBitsGadget::to_bits_le" and "Vec<T>" in key:
            return variant("Ok", a[0])
        if tp in ("ark_relations::r1cs::Namespace::<F>::cs", "ark_r1cs_std::R1CSVar::cs"):
            return mk("cs")
        return NotImplemented


def _alloc(self, ctx, tp, key, name, a):
    """AllocVar::{new_witness,new_input,new_constant,new_variable}: provided methods forward to new_variable(cs, f, mode)"""
    I = ctx.I
    if (ctx.c.get("inst") or {}).get("local") and I.prog.body(key) is not None:
        return NotImplemented        # an impl of this crate: interpret its body
    mode = {"new_witness": variant("Witness"), "new_input": variant("Input"), "new_constant": variant("Constant")}.get(name)
    targs = ctx.targs
    selfty = targs[0] if targs else ""
    if name == "new_variable":
        mode = a[2]
    # an impl of this crate?  (AllocVar<Element>/<AffinePoint>/<Fq> for the two ElementVar types)
    if name != "new_variable" or not (ctx.c.get("inst") or {}).get("local"):
        cand = None
        vt = targs[1] if len(targs) > 1 else None
        for (tr, st), im in I.prog.impl_index.items():
            if st == strip_lt(selfty) and tr.startswith("ark_r1cs_std::alloc::AllocVar<"):
                if vt is None or tr.startswith("ark_r1cs_std::alloc::AllocVar<%s," % strip_lt(vt)):
                    cand = im
        if cand is not None:
            path = [it["path"] for it in cand["items"] if it["name"] == "new_variable"]
            if path and I.prog.body(path[0]) is not None:
                if name == "new_constant":
                    f = mk("const_closure", a[1])
                    args = [a[0], f, mode]
                else:
                    args = [a[0], a[1], mode]
                c2 = {"path": "ark_r1cs_std::alloc::AllocVar::new_variable", "args": targs, "trait": "ark_r1cs_std::alloc::AllocVar",
                      "inst": {"path": path[0], "local": True, "args": targs}}
                r = I.do_call(c2, args, [None] * len(args), ctx.e, ctx.env, ctx.fr)
                if r is None:
                    return None
                ctx.env = r[1]
                return r[0]
    # external variable types (FpVar, Boolean)
    kind = "fq" if "FpVar" in selfty else ("bool" if "Boolean" in selfty else selfty)
    if name == "new_constant":
        return variant("Ok", a[1])
    r = I.apply_fn(a[1], [], ctx.e, ctx.env, ctx.fr)
    val = r[0] if r is not None else mk("bottom")
    okv = payload(val, "Ok", 0)
    n = mk("alloc_id", I.fresh("alloc"))
    ctx.effect("alloc", mode, mk("strlit", kind), okv, n)
    if mode.op == "variant" and mode.args[0] == "Constant":
        v = okv
    else:
        v = mk("allocated", mode, mk("strlit", kind), n, okv)
    return ite(is_variant(val, "Ok"), variant("Ok", v), variant("Err", payload(val, "Err", 0)))


Summaries.alloc = _alloc


def self_len(x, ty):
    if x.op == "chunk":
        return lit(x.args[1])
    m = re.search(r";\s*(\d+)\]", ty)
    if m:
        return lit(int(m.group(1)))
    if x.op == "array":
        return lit(len(x.args))
    return mk("len", x)
