"""R1CS gadget rules (cfg R) shared by C01/C02/C03/C04/C07/C13/C14/C15."""
import re
from . import terms as Tm, consts as K, poly as P
from .terms import mk, lit, field, TRUE, FALSE, variant, is_variant, payload
from . import curve as C
from .curve import Cfg
from .common import norm_path
from .summaries import felem
from . import groupops as G
from spec import decaf_spec as SP

ISQRT = "<ark_r1cs_std::fields::fp::FpVar<fields::fq::u64::wrapper::Fq> as ark_curve::r1cs::fqvar_ext::FqVarExtension>::isqrt"
INNER = "ark_curve::r1cs::inner::ElementVar"
OUTER = "ark_curve::r1cs::element::ElementVar"


def is_alloc(t, mode=None):
    return isinstance(t, Tm.T) and t.op == "allocated" and (mode is None or (t.args[0].op == "variant" and t.args[0].args[0] == mode))


def eval_bool(t, asg):
    """evaluate a boolean term under an assignment of atoms (terms) to Python bools; None if undetermined"""
    if t in asg:
        return asg[t]
    if t.op == "bool":
        return t.args[0]
    if t.op == "not":
        v = eval_bool(t.args[0], asg)
        return None if v is None else (not v)
    if t.op in ("and", "or"):
        a, b = eval_bool(t.args[0], asg), eval_bool(t.args[1], asg)
        if t.op == "and":
            if a is False or b is False:
                return False
            return None if a is None or b is None else True
        if a is True or b is True:
            return True
        return None if a is None or b is None else False
    if t.op == "ne":
        e = Tm.mk("eq", *t.args)
        v = eval_bool(e, asg)
        return None if v is None else (not v)
    if t.op == "ite":
        c = eval_bool(t.args[0], asg)
        if c is None:
            return None
        return eval_bool(t.args[1] if c else t.args[2], asg)
    return None


# =====================================================================================================
# C14: the hint block of FqVarExtension::isqrt
# =====================================================================================================

def isqrt_facts(cfg, rep):
    if ISQRT not in cfg.prog.bodies:
        rep.fail_closed("FqVarExtension::isqrt not found in cfg R")
        return None
    out = cfg.run(ISQRT)
    S_ = mk("param", "self")
    allocs = [(args, site) for pc, kind, args, site in out.effects if kind == "alloc"]
    cee = [(pc, args, site) for pc, kind, args, site in out.effects if kind == "cond_enforce_equal"]
    ee = [(pc, args, site) for pc, kind, args, site in out.effects if kind == "enforce_equal"]
    return dict(out=out, allocs=allocs, cee=cee, ee=ee, self=S_)


def isqrt_guard_table(rep, cfg, pid):
    fx = isqrt_facts(cfg, rep)
    if fx is None:
        return
    out, S_ = fx["out"], fx["self"]
    N = P.Norm(K.Q)
    where = cfg.where(ISQRT)
    # --- the two witnesses
    wit = [a for a, site in fx["allocs"] if a[0].op == "variant" and a[0].args[0] == "Witness"]
    other = [a for a, site in fx["allocs"] if not (a[0].op == "variant" and a[0].args[0] == "Witness")]
    v = out.value
    ret_ok = False
    ws = y = None
    if v.op == "variant" and v.args[0] == "Ok" and v.args[1].op == "tuple" and len(v.args[1].args) == 2:
        ws, y = v.args[1].args
        ret_ok = is_alloc(ws, "Witness") and is_alloc(y, "Witness") and ws.args[1].args[0] == "bool" and y.args[1].args[0] == "fq"
    rep.ob("GUARD/R/isqrt/witnesses", len(wit) == 2 and not other and ret_ok,
           "isqrt must allocate exactly two witnesses (the squareness flag and y), nothing else, and return those two variables; allocations: %d witness, %d other; returns %s" % (
               len(wit), len(other), Tm.show(v, maxdepth=3)), where=where)
    if not ret_ok:
        return
    dz = Tm.eq(S_, felem("fq", 0))
    y2 = mk("mul", y, y)
    zc = cfg.prog.consts.get("ark_curve::constants::ZETA")
    zeta = K.felt(zc["value"]["val"], "fq")[1]
    inv_s = mk("inv", S_)
    want_rhs = {(True, False): inv_s, (False, False): mk("mul", felem("fq", zeta), inv_s), (False, True): felem("fq", 0)}
    names = {(True, False): "y^2 = 1/den", (False, False): "y^2 = zeta/den", (False, True): "y^2 = 0", (True, True): "unsatisfiable"}
    for wsv in (True, False):
        for dzv in (False, True):
            asg = {ws: wsv, dz: dzv}
            active = []
            undetermined = []
            for pc, args, site in fx["cee"]:
                lhs, rhs, cond = args
                c = eval_bool(cond, asg)
                if c is None:
                    undetermined.append(Tm.show(cond, maxdepth=4))
                elif c:
                    r2 = Tm.subst(rhs, {dz: TRUE if dzv else FALSE})
                    l2 = Tm.subst(lhs, {dz: TRUE if dzv else FALSE})
                    active.append((l2, r2))
            final_ok = True
            for pc, args, site in fx["ee"]:
                a_, b_ = args
                va = eval_bool(a_, asg)
                vb = eval_bool(b_, asg)
                if va is None or vb is None:
                    undetermined.append(Tm.show(a_, maxdepth=4))
                elif va != vb:
                    final_ok = False
            key = "GUARD/R/isqrt/row(ws=%d,dz=%d)" % (wsv, dzv)
            if undetermined:
                rep.ob(key, False, "guard not a function of (was_square flag, den == 0): %s" % undetermined[:2], where=where)
                continue
            if (wsv, dzv) == (True, True):
                # must be unsatisfiable: either the final case check fails, or no (y) can satisfy the active equations
                satisfiable = final_ok     # an active `y^2 = c` always has a solution for some y when c is a square or 0; 1 is a square
                what = "; ".join("%s = %s" % (Tm.show(l, maxdepth=3), Tm.show(r, maxdepth=4)) for l, r in active)
                rep.ob(key, not satisfiable,
                       "prover claims (square, den = 0): the constraint block must be unsatisfiable, but the case check passes and the only active equation is [%s] - "
                       "(true, y = +-1) is accepted for den = 0, so decode accepts s = q-1 in-circuit while the native decoder rejects it" % what, where=where,
                       sample={"obligation": key, "active_equations": what, "final_case_check": final_ok})
                continue
            want = want_rhs[(wsv, dzv)]
            good = final_ok and len(active) == 1 and N.pkey(N.poly(active[0][0])) == N.pkey(N.poly(y2)) and N.pkey(N.poly(active[0][1])) == N.pkey(N.poly(want))
            rep.ob(key, good, "row (was_square=%s, den=0:%s) must enforce exactly [%s] and pass the case check; active: %s; case check passes: %s" % (
                wsv, dzv, names[(wsv, dzv)], ["%s = %s" % (Tm.show(l, maxdepth=3), Tm.show(r, maxdepth=4)) for l, r in active], final_ok), where=where,
                sample={"obligation": key, "required": names[(wsv, dzv)], "holds": good})
    # den_inv = INV(ITE(dz, 1, den)) and its existence is enforced
    invs = [args[0] for pc, kind, args, site in out.effects if kind == "enforce_invertible"]
    rep.ob("GUARD/R/isqrt/den_inv", invs == [Tm.ite(dz, felem("fq", 1), S_)], "den_inv must be the inverse of ITE(den == 0, 1, den); inverses taken: %s" % [Tm.show(i, maxdepth=4) for i in invs], where=where, nontrivial=False)
    for u in out.unmodelled:
        rep.unmodelled.append("isqrt: " + u)


def isqrt_hint(rep, cfg):
    """C13: the honest hint is the native sqrt_ratio_zeta(1, value(self))"""
    fx = isqrt_facts(cfg, rep)
    if fx is None:
        return
    S_ = fx["self"]
    val = mk("value_of", S_)
    vals = [a[2] for a, site in fx["allocs"]]
    want = [mk("isqrt_sq", felem("fq", 1), val), mk("isqrt_v", felem("fq", 1), val)]
    rep.ob("HINT/R/isqrt", vals == want,
           "the witnesses must be the native sqrt_ratio_zeta(1, value(self)) (flag, root), so that the gadget's output value equals the native result for every input incl. den = 0; hints: %s" % [Tm.show(v, maxdepth=5) for v in vals],
           where=cfg.where(ISQRT), sample={"obligation": "HINT/R/isqrt", "hints": [Tm.show(v, maxdepth=4) for v in vals]})
    calls = [a[0].args[0] for pc, kind, a, site in fx["out"].effects if kind == "isqrt_call"]
    rep.ob("FUNNEL/R/isqrt-hint-routine", calls == ["sqrt_ratio_zeta"], "the hint must come from Fq::sqrt_ratio_zeta; calls: %s" % calls, where=cfg.where(ISQRT), nontrivial=False)


def isqrt_summary():
    """local summary of the gadget (justified by the GUARD table + HINT rule): (flag, root) of ISQRT(1, self)"""
    def summ(ctx):
        x = ctx.args[0]
        ctx.effect("isqrt_gadget", x)
        return variant("Ok", mk("tuple", mk("isqrt_sq", felem("fq", 1), x), mk("isqrt_v", felem("fq", 1), x)))
    return {ISQRT: summ}


# =====================================================================================================
# C13 / C01 / C02 / C03 / C07: gadget codec and Elligator agree with the native code
# =====================================================================================================

def ok_payload(v):
    if v.op == "variant" and v.args[0] == "Ok":
        return v.args[1]
    return None


def check_gadget_codec(rep, factsR, pid, cfg=None):
    cfg = cfg or Cfg(factsR)
    N = P.Norm(K.Q)
    loc = isqrt_summary()
    # --- decompress_from_field
    p = INNER + "::decompress_from_field"
    if p not in cfg.prog.bodies:
        rep.fail_closed("inner::ElementVar::decompress_from_field not found")
        return cfg
    out = cfg.run(p, local=loc)
    s = mk("param", "s_var")
    spec = SP.decode(s)
    v = ok_payload(out.value)
    co = None
    if v is not None:
        inner = field(v, "inner")
        if inner.op == "struct" and inner.args[0] == "TEAff":
            co = (field(inner, "x"), field(inner, "y"))
    if co is None:
        rep.ob("TERM/R/decompress:shape", False, "decompress_from_field must return Ok(ElementVar{AffineVar::new(x, y)}); got %s" % Tm.show(out.value, maxdepth=4), where=cfg.where(p))
    else:
        for nm, got in zip("xy", co):
            ok = N.pkey(N.poly(got)) == N.pkey(N.poly(spec[nm]))
            rep.ob("TERM/R/decompress:%s" % nm.upper(), ok and not out.unmodelled,
                   "in-circuit decode must compute the same %s as the native / specified decode (Z = 1)\n%s" % (nm, "" if ok else C.explain_poly_mismatch(N, got, spec[nm])), where=cfg.where(p),
                   sample={"obligation": "TERM/R/decompress:%s" % nm.upper(), "equal": ok})
    enf = [(args, site) for pc, kind, args, site in out.effects if kind == "enforce_equal"]
    got_enf = set()
    for args, site in enf:
        a_, b_ = args
        if b_ is TRUE or a_ is TRUE:
            got_enf.add(N.cond(a_ if b_ is TRUE else b_))
        else:
            got_enf.add(("other", Tm.show(mk("tuple", a_, b_), maxdepth=4)))
    want_enf = {N.cond(Tm.not_(spec["s_negative"])): "is_nonnegative(s) = TRUE", N.cond(spec["was_square"]): "was_square = TRUE"}
    for k2, nm in want_enf.items():
        rep.ob("ENFORCE/R/decompress:%s" % nm.split(" ")[0], k2 in got_enf, "in-circuit decode must enforce %s (the native decoder's rejection); enforced: %d constraints" % (nm, len(enf)), where=cfg.where(p),
               sample={"obligation": "ENFORCE/R/decompress:" + nm, "present": k2 in got_enf})
    extra = [k2 for k2 in got_enf if k2 not in want_enf]
    rep.ob("ENFORCE/R/decompress:no-extra", not extra, "completeness: decode must not enforce anything beyond the two native rejections (and isqrt's own block); extra: %s" % [str(e)[:120] for e in extra], where=cfg.where(p), nontrivial=False)
    # --- compress_to_field
    p = INNER + "::compress_to_field"
    out = cfg.run(p, local=loc)
    S_ = mk("param", "self")
    X, Y = field(field(S_, "inner"), "x"), field(field(S_, "inner"), "y")
    want = SP.encode(X, Y, felem("fq", 1), mk("mul", X, Y))
    v = ok_payload(out.value)
    ok = v is not None and N.pkey(N.poly(v)) == N.pkey(N.poly(want))
    rep.ob("TERM/R/compress", ok and not out.unmodelled, "in-circuit encode must equal the specified encoder under Z := 1, T := X*Y\n%s" % ("" if ok or v is None else C.explain_poly_mismatch(N, v, want)),
           where=cfg.where(p), sample={"obligation": "TERM/R/compress", "equal": ok})
    enf = [args for pc, kind, args, site in out.effects if kind in ("enforce_equal", "cond_enforce_equal")]
    rep.ob("ENFORCE/R/compress:none", not enf, "encode must not enforce anything of its own (only isqrt's block); found %d" % len(enf), where=cfg.where(p), nontrivial=False)
    return cfg


def check_gadget_elligator(rep, factsR, pid, cfg=None):
    cfg = cfg or Cfg(factsR)
    N = P.Norm(K.Q)
    loc = isqrt_summary()
    p = INNER + "::elligator_map"
    if p not in cfg.prog.bodies:
        rep.fail_closed("inner::ElementVar::elligator_map not found")
        return
    out = cfg.run(p, local=loc)
    r0 = mk("param", "r_0_var")
    zc = cfg.prog.consts.get("ark_curve::constants::ZETA")
    zeta = K.felt(zc["value"]["val"], "fq")[1]
    spec = SP.elligator(r0, zeta)
    v = ok_payload(out.value)
    inner = field(v, "inner") if v is not None else mk("bottom")
    if not (inner.op == "struct" and inner.args[0] == "TEAff"):
        rep.ob("TERM/R/elligator:shape", False, "elligator_map must return Ok(ElementVar{AffineVar::new(x, y)}); got %s" % Tm.show(out.value, maxdepth=4), where=cfg.where(p))
        return
    mul, sub = (lambda u, w: mk("mul", u, w)), (lambda u, w: mk("sub", u, w))
    for nm, got, sx in (("x", field(inner, "x"), spec["x"]), ("y", field(inner, "y"), spec["y"])):
        if got.op == "mul" and got.args[1].op == "inv":
            num, den = got.args[0], got.args[1].args[0]
        elif got.op == "mul" and got.args[0].op == "inv":
            num, den = got.args[1], got.args[0].args[0]
        else:
            num, den = got, felem("fq", 1)
        r = N.poly(sub(mul(num, spec["z"]), mul(sx, den)))
        rep.ob("TERM/R/elligator:%s" % nm, not r and not out.unmodelled,
               "affine %s = num/den of the gadget must be the specified map's %s/Z for every r0: num*Z_spec - %s_spec*den must vanish; remainder %s" % (nm, nm.upper(), nm.upper(), N.show(r, 3)),
               where=cfg.where(p), sample={"obligation": "TERM/R/elligator:" + nm, "remainder_terms": len(r)})


def check_gadget_group_ops(rep, cfgR, pid):
    cfg = cfgR
    traits = ("core::ops::Add", "core::ops::Sub", "core::ops::AddAssign", "core::ops::SubAssign")
    n = 0
    for path, b in sorted(cfg.prog.bodies.items()):
        tr = b.get("impl_trait_def")
        if tr not in traits or "ark_curve::r1cs::" not in path:
            continue
        st = b.get("impl_self", "")
        if not st.endswith("::ElementVar"):
            continue
        n += 1
        out = cfg.run(path, local=lazy_summaries(cfg))
        names = [p.get("name") for p in b["params"]]
        l, r = mk("param", names[0]), mk("param", names[1])
        kind = G.OP_TRAITS[tr]
        got = G.den(gden(out.outs.get(0, mk("bottom")))) if kind.endswith("assign") else G.den(gden(out.value))
        if kind in ("add", "add_assign"):
            wants = [mk("gadd", l, r), mk("gadd", r, l)]
        else:
            wants = [mk("gadd", l, mk("gneg", r))]
        ok = any(got is w for w in wants) and not out.unmodelled
        rep.ob("FWD/R/%s" % norm_path(path), ok, "%s on ElementVar must denote %s on its own operands (and write back to self for the assigning forms); got %s%s" % (
            tr.split("::")[-1], Tm.show(wants[0]), Tm.show(got, maxdepth=6), ("; unmodelled: %s" % out.unmodelled[:2]) if out.unmodelled else ""), where=cfg.where(path),
            sample={"obligation": "FWD/R/%s" % norm_path(path), "got": Tm.show(got, maxdepth=4)})
    rep.analysed["gadget_operator_impls"] = n
    rep.floor("gadget_operator_impls", n, 24)
    # negate / double_in_place / zero / constant
    for mod in (INNER, OUTER):
        for name, want in (("negate", lambda s: mk("gneg", s)), ("double_in_place", lambda s: mk("gdbl", s))):
            ps = [x for x in cfg.prog.bodies if x.endswith("::" + name) and mod.rsplit("::", 1)[0] in x and "CurveVar" in x]
            for p in ps:
                out = cfg.run(p, local=lazy_summaries(cfg))
                S_ = mk("param", "self")
                if name == "negate":
                    v = ok_payload(out.value)
                    got = G.den(gden(v)) if v is not None else mk("bottom")
                else:
                    got = G.den(gden(out.outs.get(0, mk("bottom"))))
                rep.ob("FWD/R/%s" % norm_path(p), got is want(S_), "%s must denote %s; got %s" % (name, Tm.show(want(S_)), Tm.show(got, maxdepth=5)), where=cfg.where(p))


def gden(t):
    """strip the gadget wrappers: ElementVar{inner: AffineVar} and the lazy wrapper"""
    if not isinstance(t, Tm.T):
        return t
    memo = {}

    def go(x):
        if not isinstance(x, Tm.T):
            return x
        r = memo.get(x)
        if r is not None:
            return r
        if x.op == "struct" and x.args[0].endswith("::ElementVar") and x.args[1] == ("inner",):
            r = go(x.args[2])
        elif x.op == "lazy_el":
            r = go(x.args[0])
        elif x.op == "update_field" and x.args[1] == "inner":
            r = go(x.args[2])
        elif x.op == "field" and x.args[1] == "inner":
            r = go(x.args[0])
        elif x.op == "lazy_element_of":
            r = go(x.args[0])
        else:
            na = tuple(go(a) if isinstance(a, Tm.T) else a for a in x.args)
            r = x if all(u is w for u, w in zip(na, x.args)) else Tm.rebuild(x.op, na)
        memo[x] = r
        return r
    return go(t)


def lazy_summaries(cfg):
    """element::ElementVar is a lazy cell; for the operator forwards it is summarised as a wrapper around the inner element"""
    L = "ark_curve::r1cs::lazy::LazyElementVar"

    def new_from_element(ctx):
        return mk("lazy_el", ctx.args[0])

    def element(ctx):
        x = ctx.args[0]
        if x.op == "lazy_el":
            return variant("Ok", x.args[0])
        return variant("Ok", mk("lazy_element_of", x))
    return {L + "::new_from_element": new_from_element, L + "::element": element}


def check_eq_select(rep, cfg):
    N = P.Norm(K.Q)
    p = "<ark_curve::r1cs::inner::ElementVar as ark_r1cs_std::eq::EqGadget<fields::fq::u64::wrapper::Fq>>::is_eq"
    ps = [x for x in cfg.prog.bodies if x.endswith("::is_eq") and "inner::ElementVar" in x]
    for p in ps:
        out = cfg.run(p)
        S_, O_ = mk("param", "self"), mk("param", "other")
        x1, y1 = field(field(S_, "inner"), "x"), field(field(S_, "inner"), "y")
        x2, y2 = field(field(O_, "inner"), "x"), field(field(O_, "inner"), "y")
        want = Tm.eq(mk("mul", x1, y2), mk("mul", x2, y1))
        v = ok_payload(out.value)
        ok = v is not None and N.cond(v) == N.cond(want)
        rep.ob("TERM/R/%s" % norm_path(p), ok, "in-circuit equality must be the Decaf test X1*Y2 == X2*Y1; got %s" % Tm.show(out.value, maxdepth=5), where=cfg.where(p))
    # enforce (not) equal forms go through is_eq
    for path, b in sorted(cfg.prog.bodies.items()):
        if not path.startswith("<ark_curve::r1cs::") and not path.startswith("ark_curve::r1cs::"):
            continue
        name = path.split("::")[-1]
        if name in ("conditional_enforce_equal", "conditional_enforce_not_equal") and "ElementVar" in path:
            loc = {}
            for q_ in cfg.prog.bodies:
                if q_.endswith("::is_eq") and "ElementVar" in q_:
                    loc[q_] = (lambda ctx: variant("Ok", mk("decaf_eq", ctx.args[0], ctx.args[1])))
            out = cfg.run(path, local=loc)
            cee = [args for pc, kind, args, site in out.effects if kind == "cond_enforce_equal"]
            S_, O_, E_ = mk("param", "self"), mk("param", "other"), mk("param", "should_enforce")
            want_b = TRUE if name.endswith("enforce_equal") and "not" not in name else FALSE
            ok = len(cee) == 1 and cee[0][0] is mk("decaf_eq", S_, O_) and cee[0][1] is want_b and cee[0][2] is E_
            rep.ob("TERM/R/%s" % norm_path(path), ok, "%s must conditionally enforce decaf_eq(self, other) == %s under should_enforce; got %s" % (
                name, Tm.show(want_b), [[Tm.show(a, maxdepth=3) for a in c] for c in cee]), where=cfg.where(path))
    for p in [x for x in cfg.prog.bodies if x.endswith("::conditionally_select") and "inner::ElementVar" in x]:
        out = cfg.run(p)
        c_, t_, f_ = mk("param", "cond"), mk("param", "true_value"), mk("param", "false_value")
        v = ok_payload(out.value)
        inner = field(v, "inner") if v is not None else mk("bottom")
        ok = inner.op == "struct" and field(inner, "x") is Tm.ite(c_, field(field(t_, "inner"), "x"), field(field(f_, "inner"), "x")) and \
            field(inner, "y") is Tm.ite(c_, field(field(t_, "inner"), "y"), field(field(f_, "inner"), "y"))
        rep.ob("TERM/R/%s" % norm_path(p), ok, "conditional select must pick both coordinates of the same operand: (cond ? t.x : f.x, cond ? t.y : f.y); got %s" % Tm.show(inner, maxdepth=5), where=cfg.where(p))


def check_gadget_identity_predicates(rep, cfg):
    """the in-circuit zero test of both ElementVar layers.  Inherited from ark-r1cs-std: `self.is_eq(&Self::zero())`, i.e. the crate's own Decaf
    equality against the identity (X == 0 for every representative).  Overridden: the override is interpreted and must be that predicate - the
    curve-point test of the inner AffineVar (x == 0 AND y == 1) is false on the (0, -1) representative, where the native is_identity is true."""
    N = P.Norm(K.Q)
    n = 0
    for im in cfg.facts["impls"]:
        if im.get("trait_def") != "ark_r1cs_std::groups::CurveVar" or "ElementVar" not in im.get("self", ""):
            continue
        layer = "inner" if "inner::ElementVar" in im["self"] else "outer"
        key = "IDENT/R/%s::ElementVar::is_zero" % layer
        n += 1
        if "is_zero" in (im.get("inherited") or []):
            rep.ob(key, True, "inherited ark-r1cs-std default is_eq(self, zero()): the crate's Decaf equality against the identity", nontrivial=False)
            continue
        path = next((it["path"] for it in im["items"] if it["name"] == "is_zero"), None)
        if path is None or cfg.prog.body(path) is None:
            rep.ob(key, False, "overriding is_zero not found")
            continue
        loc = {}
        if layer == "outer":
            # the lazy cell hands out the inner element; the inner layer's own is_zero is judged by its own instance
            for q_ in cfg.prog.bodies:
                if q_.endswith("lazy::LazyElementVar::element"):
                    loc[q_] = (lambda ctx: variant("Ok", mk("INNER_EL", ctx.args[0])))
                if q_.endswith("::is_zero") and "inner::ElementVar" in q_:
                    loc[q_] = (lambda ctx: variant("Ok", mk("inner_is_zero", ctx.args[0])))
        out = cfg.run(path, local=loc)
        v = ok_payload(out.value)
        S_ = mk("param", "self")
        if layer == "inner":
            x = field(field(S_, "inner"), "x")
            want = Tm.eq(x, mk("felem", "fq", 0))
            ok = v is not None and N.cond(v) == N.cond(want) and not out.unmodelled
        else:
            ok = v is not None and v.op == "inner_is_zero" and not out.unmodelled
        rep.ob(key, ok, "an overriding is_zero must be the Decaf identity test X == 0 (true for both representatives of the identity), as the inherited "
                        "is_eq(self, zero()) is; got %s" % Tm.show(v if v is not None else out.value, maxdepth=5), where=cfg.where(path))
    return n


GADGET_DEFAULTS = {
    # provided methods of the ark-r1cs-std traits that both ElementVar layers INHERIT on the pinned tree.  Their behaviour is the external default
    # applied to the crate's required methods (which the TERM / FWD / ALLOC rules examine).  If one of them becomes an override, crate code that
    # no rule interprets sits behind a public gadget entry point: reported, unless a dedicated rule handles it (is_zero: IDENT above).
    "ark_r1cs_std::eq::EqGadget": ("is_neq", "enforce_equal", "enforce_not_equal"),
    "ark_r1cs_std::R1CSVar": ("is_constant",),
    "ark_r1cs_std::select::CondSelectGadget": ("conditionally_select_power_of_two_vector",),
    "ark_r1cs_std::alloc::AllocVar": ("new_constant", "new_input", "new_witness"),
    "ark_r1cs_std::ToBitsGadget": ("to_non_unique_bits_le", "to_bits_be", "to_non_unique_bits_be"),
    "ark_r1cs_std::ToBytesGadget": ("to_non_unique_bytes",),
    "ark_r1cs_std::groups::CurveVar": ("double", "scalar_mul_le", "precomputed_base_scalar_mul_le", "precomputed_base_multiscalar_mul_le"),
}


def check_gadget_default_set(rep, cfg):
    n = 0
    for im in cfg.facts["impls"]:
        td = im.get("trait_def")
        if td not in GADGET_DEFAULTS or "ElementVar" not in im.get("self", "") or "r1cs" not in im.get("self", ""):
            continue
        layer = "inner" if "inner::ElementVar" in im["self"] else "outer"
        inh = set(im.get("inherited") or [])
        for name in GADGET_DEFAULTS[td]:
            n += 1
            rep.ob("DEFAULT/R/%s::ElementVar::%s::%s" % (layer, td.split("::")[-1], name), name in inh,
                   "%s::%s is %s" % (td, name, "inherited (external default over the crate's required methods)" if name in inh else
                                     "now OVERRIDDEN by the crate: a public gadget entry point whose body no rule of this check interprets - verify it and add a rule, or drop the override"),
                   where=im.get("sp"), nontrivial=False)
    return n


def check_sign_gadget(rep, cfg):
    """the in-circuit sign convention, decided on the three methods' semantics with calls among them replaced by each other's semantics
    (so it does not matter which of is_nonnegative / is_negative is written as the primitive):
        is_nonnegative(x) = NOT bit 0 of the canonical little-endian bit decomposition,  is_negative = its negation,
        abs(x) = select(is_nonnegative, x, -x)"""
    from . import engine as E, summaries as S
    base = "<ark_r1cs_std::fields::fp::FpVar<fields::fq::u64::wrapper::Fq> as ark_curve::r1cs::fqvar_ext::FqVarExtension>::"
    S_ = mk("param", "self")
    methods = ("is_nonnegative", "is_negative", "abs")
    if not all((base + m) in cfg.prog.bodies for m in methods):
        rep.fail_closed("FqVarExtension sign methods not found")
        return
    memo, busy = {}, set()

    def sem(m, arg):
        if m in busy:
            return variant("Ok", mk("cyclic", m))
        if m not in memo:
            busy.add(m)
            loc = {}
            for m2 in methods:
                if m2 != m:
                    loc[base + m2] = (lambda mm: (lambda ctx: sem(mm, ctx.args[0])))(m2)
            I = E.Interp(cfg.prog, S.Summaries(local=loc), {})
            out = I.run(base + m)
            busy.discard(m)
            memo[m] = (out.value, out.params[0] if out.params else S_, list(out.unmodelled))
        v, par, unm = memo[m]
        return Tm.subst(v, {par: arg}) if par is not arg else v
    lsb = mk("sign", S_)       # terms.index normalises bits_le(x)[0] to sign(x)
    nonneg = Tm.not_(lsb)
    v = sem("is_nonnegative", S_)
    rep.ob("SIGN/R/is_nonnegative", v is variant("Ok", nonneg) and not memo["is_nonnegative"][2],
           "in-circuit sign must be NOT(bit 0 of the canonical little-endian bit decomposition); got %s" % Tm.show(v, maxdepth=5), where=cfg.where(base + "is_nonnegative"))
    v = sem("is_negative", S_)
    rep.ob("SIGN/R/is_negative", v is variant("Ok", lsb) and not memo["is_negative"][2],
           "is_negative must be the negation of is_nonnegative (bit 0 itself); got %s" % Tm.show(v, maxdepth=4), where=cfg.where(base + "is_negative"), nontrivial=False)
    v = sem("abs", S_)
    rep.ob("SIGN/R/abs", v is variant("Ok", Tm.ite(nonneg, S_, mk("neg", S_))) and not memo["abs"][2],
           "abs must be select(is_nonnegative, self, -self); got %s" % Tm.show(v, maxdepth=4), where=cfg.where(base + "abs"))


def alloc_modes(rep, cfg, pid):
    """inner::AllocVar<Element>::new_variable per mode"""
    loc = isqrt_summary()
    dec = INNER + "::decompress_from_field"
    loc[dec] = lambda ctx: (ctx.effect("decode_gadget", ctx.args[0]), variant("Ok", mk("decoded_var", ctx.args[0])))[1]
    pe = "ark_curve::encoding::<impl ark_curve::element::projective::Element>::vartime_compress_to_field"
    loc[pe] = lambda ctx: mk("enc_field", ctx.args[0])
    for q_ in cfg.prog.bodies:
        if q_.endswith("::is_eq") and "inner::ElementVar" in q_:
            loc[q_] = (lambda ctx: variant("Ok", mk("decaf_eq", ctx.args[0], ctx.args[1])))
    ps = [x for x in cfg.prog.bodies if x.endswith("::new_variable") and "inner::ElementVar" in x and "AllocVar<ark_curve::element::projective::Element" in x]
    if len(ps) != 1:
        rep.fail_closed("inner AllocVar<Element>::new_variable not found (%s)" % ps)
        return
    p = ps[0]
    res = {}
    for mode in ("Constant", "Witness", "Input"):
        from . import engine as E, summaries as S
        summ = S.Summaries(local=loc)
        I = E.Interp(cfg.prog, summ)
        args = [mk("param", "cs"), mk("param", "f"), variant(mode)]
        out = I.run(p, args=args)
        res[mode] = out
    val = payload(mk("apply", mk("param", "f")), "Ok", 0)
    # Constant: no variables, no constraints
    oc = res["Constant"]
    allocs = [a for pc, kind, a, site in oc.effects if kind == "alloc"]
    nonconst = [a for a in allocs if not (a[0].op == "variant" and a[0].args[0] == "Constant")]
    enf = [a for pc, kind, a, site in oc.effects if kind in ("enforce_equal", "cond_enforce_equal", "decode_gadget")]
    rep.ob("ALLOC/R/Constant", not nonconst and not enf, "Constant mode must allocate no variables and emit no constraints; non-constant allocations %d, constraints %d" % (len(nonconst), len(enf)), where=cfg.where(p))
    vc = ok_payload_any(oc.value)
    inner_c = field(vc, "inner") if vc is not None else None
    want_c = field(val, "inner")
    okc = inner_c is want_c
    if not okc and inner_c is not None and inner_c.op == "struct" and inner_c.args[0] == "TEAff":
        co = dict(zip(inner_c.args[1], inner_c.args[2:]))
        X, Y, Z = (field(want_c, k) for k in ("x", "y", "z"))
        okc = co.get("x") in (mk("mul", X, mk("inv", Z)), mk("mul", mk("inv", Z), X)) and co.get("y") in (mk("mul", Y, mk("inv", Z)), mk("mul", mk("inv", Z), Y))
    rep.ob("ALLOC/R/Constant:value", okc, "the constant must denote the given element: its point is the native point handed to the (normalising) AffineVar allocation, or the affine "
           "coordinates X/Z, Y/Z - not the raw projective X, Y; got %s" % (Tm.show(inner_c, maxdepth=5) if inner_c is not None else None), where=cfg.where(p))
    # Witness: returns the *decoded* variable; the witnessed coordinates flow only into the equality constraint
    ow = res["Witness"]
    v = ok_payload_any(ow.value)
    allocs = [a for pc, kind, a, site in ow.effects if kind == "alloc"]
    decs = [a for pc, kind, a, site in ow.effects if kind == "decode_gadget"]
    cee = [a for pc, kind, a, site in ow.effects if kind in ("cond_enforce_equal", "enforce_equal")]
    okw = False
    why = ""
    if v is not None and v.op == "decoded_var" and is_alloc(v.args[0], "Witness"):
        enc_w = v.args[0]
        hint = enc_w.args[3]
        good_hint = hint.op == "enc_field"
        # P_var must appear only inside the equality constraint
        pvars = [a for a in allocs if a[1].args[0] == "affine_point_unchecked"]
        uses_ok = True
        for t in Tm.subterms(v):
            if is_alloc(t) and t.args[1].args[0] == "affine":
                uses_ok = False
        eq_ok = any(c[0].op == "decaf_eq" and (c[0].args[0] is v or c[0].args[1] is v) for c in cee)
        # the coordinates the equality constraint checks must be the CALLER's point: witnessing something derived from the decoding instead makes
        # the constraint compare the decoding with itself, and an invalid point whose encoding happens to decode is accepted
        offered_ok = all(a[2] is field(val, "inner") for a in pvars)
        okw = good_hint and uses_ok and len(decs) == 1 and offered_ok
        why = ("the extra witness point is the caller's own point: %s; " % offered_ok) + "returned variable = decompress(witness(encode(value))): %s; prover-supplied coordinates do not flow into the result: %s; decode gadget invoked once: %s; decaf-equality against the offered coordinates present: %s" % (
            good_hint, uses_ok, len(decs) == 1, eq_ok)
        if not eq_ok:
            rep.info("Witness mode: no decaf-equality constraint ties the offered coordinates P_var to the decoded variable; P_var would be unconstrained junk (the output stays sound)")
    else:
        why = "returns %s" % Tm.show(ow.value, maxdepth=4)
    rep.ob("WITNESS/R/new_variable", okw, "Witness mode must return the in-circuit decoding of the witnessed encoding (never the prover-supplied point): " + why, where=cfg.where(p),
           sample={"obligation": "WITNESS/R/new_variable", "verdict": why})
    # Input at the inner level is unreachable: its only caller dispatches Input first
    oi = res["Input"]
    pan = [s for pc, s in oi.panics if s.get("kind") == "unreachable"]
    outer = [x for x in cfg.prog.bodies if x.endswith("::new_variable") and "element::ElementVar" in x and "AllocVar<ark_curve::element::projective::Element" in x]
    callers = []
    for q_, b in cfg.prog.bodies.items():
        if "body" in b and q_ != p and mentions_call(b["body"], p):
            callers.append(q_)
    rep.ob("ALLOC/R/inner-Input-unreachable", len(pan) >= 1 and set(callers) <= set(outer) | {x for x in cfg.prog.bodies if "AllocVar<ark_curve::element::affine::AffinePoint" in x and "inner::ElementVar" in x},
           "inner new_variable's `unreachable!()` for Input: callers %s must dispatch Input before delegating" % [norm_path(c) for c in callers], where=cfg.where(p), nontrivial=False)
    return res


def shape_reporter(rep, cfg):
    """CountConstraints::num_constraints_and_instance_variables is the library's own statement of a circuit's shape: it has to synthesise the way
    the Groth16 generator does (optimisation goal Constraints, setup mode, finalised) and report (constraints, instance variables) in that order"""
    ps = [p for p in cfg.prog.bodies if p.endswith("CountConstraints::num_constraints_and_instance_variables")]
    if not ps:
        return 0
    b = cfg.prog.bodies[ps[0]]
    ev = []

    def walk(n):
        if isinstance(n, dict):
            if n.get("k") == "MethodCall":
                cal = (n.get("callee") or {}).get("path", "")
                args = [((a.get("r") or {}).get("path") or ((a.get("r") or {}).get("callee") or {}).get("path") or "") for a in n.get("args", []) if isinstance(a, dict)]
                ev.append((cal.split("::")[-1], cal, args))
            for v_ in n.values():
                walk(v_)
        elif isinstance(n, list):
            for v_ in n:
                walk(v_)
    walk(b.get("body"))
    names = [e[0] for e in ev]

    def at(nm):
        return names.index(nm) if names.count(nm) == 1 else None
    g, m, gen, fin, nc, ni = (at(x) for x in ("set_optimization_goal", "set_mode", "generate_constraints", "finalize", "num_constraints", "num_instance_variables"))
    probs = []
    if None in (g, m, gen, fin, nc, ni):
        probs.append("expected exactly one call each of set_optimization_goal, set_mode, generate_constraints, finalize, num_constraints, num_instance_variables; found %s" % names)
    else:
        if not (ev[g][2] and ev[g][2][0].endswith("OptimizationGoal::Constraints")):
            probs.append("optimisation goal must be OptimizationGoal::Constraints (what the Groth16 generator uses); got %s" % ev[g][2])
        if not (ev[m][2] and ev[m][2][0].endswith("SynthesisMode::Setup")):
            probs.append("synthesis mode must be Setup; got %s" % ev[m][2])
        if not (g < gen and m < gen):
            probs.append("goal and mode must be set before the circuit is synthesised")
        if not (gen < fin < nc < ni):
            probs.append("the system must be finalised after synthesis and before the counts are read, and the result is (constraints, instance variables) in this order")
    rep.ob("SHAPE/R/CountConstraints", not probs, "the shape reporter must describe the circuit the Groth16 keys are made for: %s" % ("; ".join(probs) or "ok"), where=cfg.where(ps[0]), nontrivial=False)
    return 1


def ok_payload_any(v):
    """Ok payload of the (single) success leaf of a Result-valued term"""
    for pc, leaf in C.expand_flows([((), v)]):
        if leaf.op == "variant" and leaf.args[0] == "Ok":
            return leaf.args[1]
    return None


def mentions_call(node, path):
    if isinstance(node, dict):
        c = node.get("callee")
        if isinstance(c, dict) and ((c.get("inst") or {}).get("path") == path):
            return True
        r = node.get("r")
        if isinstance(r, dict) and isinstance(r.get("callee"), dict) and ((r["callee"].get("inst") or {}).get("path") == path):
            return True
        return any(mentions_call(v, path) for v in node.values())
    if isinstance(node, list):
        return any(mentions_call(v, path) for v in node)
    return False


def public_input(rep, cfg):
    """C15: an element allocated as public input is exactly one Fq instance variable = encode(value) = ToConstraintField"""
    pe = "ark_curve::encoding::<impl ark_curve::element::projective::Element>::vartime_compress_to_field"
    loc = {pe: (lambda ctx: mk("enc_field", ctx.args[0]))}
    ps = [x for x in cfg.prog.bodies if x.endswith("::new_variable") and "element::ElementVar" in x and "AllocVar<ark_curve::element::projective::Element" in x]
    if len(ps) != 1:
        rep.fail_closed("element AllocVar<Element>::new_variable not found")
        return
    from . import engine as E, summaries as S
    I = E.Interp(cfg.prog, S.Summaries(local=loc))
    out = I.run(ps[0], args=[mk("param", "cs"), mk("param", "f"), variant("Input")])
    allocs = [a for pc, kind, a, site in out.effects if kind == "alloc"]
    enf = [a for pc, kind, a, site in out.effects if kind in ("enforce_equal", "cond_enforce_equal", "isqrt_gadget", "enforce_invertible")]
    val = payload(mk("apply", mk("param", "f")), "Ok", 0)
    ok = len(allocs) == 1 and allocs[0][0] is variant("Input") and allocs[0][1].args[0] == "fq" and allocs[0][2] is mk("enc_field", val) and not enf
    rep.ob("INPUT/R/new_variable", ok,
           "Input mode must allocate exactly one Fq instance variable whose value is vartime_compress_to_field(value) and emit no constraint before the lazy decode; allocations: %s; constraints: %d" % (
               [[Tm.show(x, maxdepth=4) for x in a[:3]] for a in allocs], len(enf)), where=cfg.where(ps[0]),
           sample={"obligation": "INPUT/R/new_variable", "allocations": len(allocs)})
    # every value type the public ElementVar can be allocated from (Element, AffinePoint, Fq): Input mode = exactly one Fq instance variable
    for q_ in sorted(x for x in cfg.prog.bodies if x.endswith("::new_variable") and "element::ElementVar" in x and "AllocVar<" in x):
        I2 = E.Interp(cfg.prog, S.Summaries(local=loc))
        o2 = I2.run(q_, args=[mk("param", "cs"), mk("param", "f"), variant("Input")])
        al = [a for pc, kind, a, site in o2.effects if kind == "alloc"]
        pan = [s_ for pc, s_ in o2.panics if s_.get("kind") in ("unreachable", "panic", "unimplemented") and all(c is not FALSE for c in pc)]
        okq = len(al) == 1 and al[0][0] is variant("Input") and al[0][1].args[0] == "fq" and not pan
        rep.ob("INPUT/R/%s" % norm_path(q_), okq, "allocation as public input must produce exactly one Fq instance variable and cannot panic; allocations %d, reachable panics %s" % (
            len(al), [s_.get("kind") for s_ in pan]), where=cfg.where(q_), nontrivial=False)
    pt = [x for x in cfg.prog.bodies if x.endswith("::to_field_elements") and "projective::Element" in x]
    if len(pt) == 1:
        o2 = cfg.run(pt[0], local=loc)
        want = variant("Some", mk("array", mk("enc_field", mk("param", "self"))))
        rep.ob("INPUT/R/ToConstraintField", o2.value is want, "ToConstraintField must be the single element [vartime_compress_to_field(self)] (the same value the Input allocation uses); got %s" % Tm.show(o2.value, maxdepth=5), where=cfg.where(pt[0]))
    else:
        rep.fail_closed("ToConstraintField<Fq> for Element not found")


# =====================================================================================================
# lazy typestate
# =====================================================================================================

def lazy_typestate(rep, cfg):
    L = "ark_curve::r1cs::lazy::LazyElementVar"
    dec = INNER + "::decompress_from_field"
    enc = INNER + "::compress_to_field"
    states = {
        "Encoding": mk("variant", "Encoding", mk("sym", "ENC")),
        "Element": mk("variant", "Element", mk("sym", "EL")),
        "Both": mk("variant_struct", "EncodingAndElement", ("encoding", "element"), mk("sym", "ENC"), mk("sym", "EL")),
    }
    from . import engine as E, summaries as S
    results = {}
    for meth in ("element", "encoding"):
        for sname, sval in states.items():
            calls = []

            def mkloc():
                loc = {}
                loc[dec] = lambda ctx: (calls.append(("decode", ctx.args[0])), variant("Ok", mk("DEC", ctx.args[0])))[1]
                loc[enc] = lambda ctx: (calls.append(("encode", ctx.args[0])), variant("Ok", mk("ENCODE", ctx.args[0])))[1]
                return loc
            I = E.Interp(cfg.prog, S.Summaries(local=mkloc()), {"max_depth": 6})
            selfv = mk("struct", L, ("inner",), sval)
            try:
                out = I.run(L + "::" + meth, args=[selfv])
            except KeyError:
                rep.fail_closed("LazyElementVar::%s not found" % meth)
                return
            results[(meth, sname)] = (out, list(calls))
    # expectations
    ENC, EL = mk("sym", "ENC"), mk("sym", "EL")
    exp = {
        ("element", "Encoding"): ([("decode", ENC)], mk("DEC", ENC)),
        ("element", "Element"): ([], EL),
        ("element", "Both"): ([], EL),
        ("encoding", "Encoding"): ([], ENC),
        ("encoding", "Element"): ([("encode", EL)], mk("ENCODE", EL)),
        ("encoding", "Both"): ([], ENC),
    }
    for k2, (out, calls) in results.items():
        want_calls, want_val = exp[k2]
        v = ok_payload_any(out.value)
        pan = [s for pc, s in out.panics if s.get("kind") in ("unreachable", "panic") and (not pc or pc[-1] is not FALSE)]
        live_pan = [s for pc, s in out.panics if s.get("kind") in ("unreachable",) and all(c is not FALSE for c in pc)]
        ok = calls == want_calls and v is want_val
        rep.ob("LAZY/R/%s@%s" % k2, ok and not out.unmodelled,
               "LazyElementVar::%s in state %s must emit %s and return %s; emitted %s, returned %s%s" % (
                   k2[0], k2[1], [c[0] for c in want_calls] or "no constraints", Tm.show(want_val), [c[0] for c in calls], Tm.show(v, maxdepth=4) if v is not None else Tm.show(out.value, maxdepth=4),
                   ("; unmodelled: %s" % out.unmodelled[:2]) if out.unmodelled else ""),
               where=cfg.where(L + "::" + k2[0]), sample={"obligation": "LAZY/R/%s@%s" % k2, "constraint_emitting_calls": [c[0] for c in calls]})
        # the cell must be left in the Both state (with the same terms that are returned) whenever constraints were emitted
        if want_calls:
            post = out.outs   # &self: RefCell interior mutability is modelled through the borrow_mut write
            st = None
            for pc, kind, args, site in out.effects:
                if kind == "lazy_store":
                    st = args[0]
            okst = st is not None and st.op == "variant_struct" and st.args[0] == "EncodingAndElement"
            if okst:
                d = dict(zip(st.args[1], st.args[2:]))
                if k2[0] == "element":
                    okst = d.get("element") is want_val and d.get("encoding") is ENC
                else:
                    okst = d.get("encoding") is want_val and d.get("element") is EL
            rep.ob("LAZY/R/%s@%s:memo" % k2, okst, "after emitting constraints the cell must hold EncodingAndElement{the original half, the freshly computed half that is returned}; stored: %s" % (
                Tm.show(st, maxdepth=4) if st is not None else "nothing"), where=cfg.where(L + "::" + k2[0]))
    # no RefCell borrow is live across the nested call: the borrow in `matches!(&*self.inner.borrow(), ..)` is a temporary of the condition
    return results


def eager_decode(rep, cfg):
    """the public ElementVar::decompress_from_field is documented to ENFORCE validity of the encoding: on its Ok path the decode gadget must have
    been emitted on exactly its own argument (through the lazy cell), and the cell must hold both halves - not merely the encoding, whose decode
    constraints would then appear only if some later gadget happens to force the element."""
    from . import engine as E, summaries as S
    dec = INNER + "::decompress_from_field"
    enc = INNER + "::compress_to_field"
    path = OUTER + "::decompress_from_field"
    if cfg.prog.body(path) is None:
        rep.fail_closed("r1cs::element::ElementVar::decompress_from_field not found")
        return
    calls = []
    loc = {dec: lambda ctx: (calls.append(("decode", ctx.args[0])), variant("Ok", mk("DEC", ctx.args[0])))[1],
           enc: lambda ctx: (calls.append(("encode", ctx.args[0])), variant("Ok", mk("ENCODE", ctx.args[0])))[1]}
    I = E.Interp(cfg.prog, S.Summaries(local=loc), {"max_depth": 6})
    out = I.run(path)
    s = out.params[0]
    st = None
    for pc, kind, args, site in out.effects:
        if kind == "lazy_store":
            st = args[0]
    okst = st is not None and st.op == "variant_struct" and st.args[0] == "EncodingAndElement" and \
        dict(zip(st.args[1], st.args[2:])).get("encoding") is s and dict(zip(st.args[1], st.args[2:])).get("element") is mk("DEC", s)
    ok = calls == [("decode", s)] and okst and not out.unmodelled
    rep.ob("EAGER/R/ElementVar::decompress_from_field", ok,
           "decompress_from_field(s) must emit the decode gadget on s before returning (it is the validity check of the encoding); constraint-emitting calls: %s; cell after the call: %s" % (
               [(c, Tm.show(a, maxdepth=3)) for c, a in calls], Tm.show(st, maxdepth=4) if st is not None else "unchanged (Encoding only)"),
           where=cfg.where(path), sample={"obligation": "EAGER/R/ElementVar::decompress_from_field", "calls": [c for c, a in calls]})


# =====================================================================================================
# C15: taint - constraint structure must not depend on witness values
# =====================================================================================================

def taint_sources(t):
    """value-level taint sources occurring in t outside value shields (allocation closures)"""
    res = []
    stack = [t]
    seen = set()
    while stack:
        x = stack.pop()
        if isinstance(x, tuple):
            stack.extend(x)
            continue
        if not isinstance(x, Tm.T) or x in seen:
            continue
        seen.add(x)
        if x.op == "allocated":
            continue       # the value lives inside the allocation closure
        if x.op in ("value_of",) or (x.op == "apply" and x.args[0].op == "param"):
            res.append(x)
            continue
        stack.extend(x.args)
    return res


def circuit_value_taint(t, depth=0):
    """taint sources on which a returned circuit value depends: availability tests and error payloads do not count"""
    if not isinstance(t, Tm.T) or depth > 200:
        return []
    if t.op == "allocated":
        return []
    if t.op == "variant" and t.args[0] in ("Err", "None"):
        return []
    if t.op == "ite":
        c = t.args[0]
        res = value_taint_of_cond(c)
        return res + circuit_value_taint(t.args[1], depth + 1) + circuit_value_taint(t.args[2], depth + 1)
    if t.op in ("value_of",) or (t.op == "apply" and t.args[0].op == "param"):
        return [t]
    res = []
    for a in t.args:
        if isinstance(a, Tm.T):
            res += circuit_value_taint(a, depth + 1)
        elif isinstance(a, tuple):
            for x in a:
                res += circuit_value_taint(x, depth + 1)
    return res


def value_taint_of_cond(c):
    """value-level taint of a condition: `is a value present?` tests (Ok/Err/Some/None of a tainted Result/Option) do not count"""
    if not isinstance(c, Tm.T):
        return []
    if c.op == "is_variant" and c.args[1] in ("Ok", "Err", "Some", "None"):
        return []
    if c.op in ("and", "or", "not", "ite"):
        res = []
        for a in c.args:
            res += value_taint_of_cond(a)
        return res
    return taint_sources(c)


def availability_only(c):
    """condition that only asks whether a value is present (Err/Ok, Some/None of a tainted Result/Option)"""
    x = c.args[0] if c.op == "not" else c
    return x.op == "is_variant" and x.args[1] in ("Ok", "Err", "Some", "None")


def taint_rule(rep, cfg):
    n_fn = 0
    n_eff = 0
    avail = []
    for path, b in sorted(cfg.prog.bodies.items()):
        if "r1cs" not in path or "body" not in b or b["dk"] not in ("Fn", "AssocFn") or "::tests::" in path or "CountConstraints" in path:
            continue
        n_fn += 1
        out = cfg.run(path)
        bad = []
        for pc, kind, args, site in out.effects:
            if kind not in ("alloc", "enforce_equal", "cond_enforce_equal", "enforce_invertible", "loop"):
                continue
            n_eff += 1
            for c in pc:
                src = taint_sources(c)
                if not src:
                    continue
                if not value_taint_of_cond(c):
                    avail.append("%s: %s" % (norm_path(path), Tm.show(c, maxdepth=3)))
                    continue
                bad.append("%s at %s is control-dependent on a witness value: %s" % (kind, site.get("sp"), Tm.show(c, maxdepth=5)))
            if kind == "alloc":
                structural = (args[0], args[1])     # mode and kind; args[2] is the closure's value
            elif kind == "loop":
                structural = (args[0].args[0],) if args and isinstance(args[0], Tm.T) and args[0].op == "fold" else ()
            else:
                structural = args
            for a in structural:
                if isinstance(a, Tm.T) and taint_sources(a):
                    bad.append("%s at %s receives a witness value outside an allocation closure: %s" % (kind, site.get("sp"), Tm.show(a, maxdepth=5)))
        # a returned circuit value (a *Var / Boolean / UInt8) must not be selected or computed from witness values outside
        # allocation closures: which gadget is emitted would then depend on the value
        oty = b.get("output", "")
        is_value_fn = b.get("impl_trait_def") == "ark_r1cs_std::R1CSVar" and path.endswith("::value")
        if re.search(r"Var|Boolean|UInt8", oty) and not is_value_fn:
            for what, t in [("return value", out.value)] + [("out-parameter %d" % i, t_) for i, t_ in out.outs.items()]:
                src = circuit_value_taint(t)
                if src:
                    bad.append("the %s (a circuit variable) depends on a witness value outside an allocation closure: %s" % (what, Tm.show(src[0], maxdepth=4)))
        key = "TAINT/R/%s" % norm_path(path)
        rep.ob(key, not bad, "constraint generation must not depend on values: %s" % ("%d effects, all unconditional w.r.t. values" % len(out.effects) if not bad else "; ".join(bad[:3])),
               where=cfg.where(path), nontrivial=bool(out.effects))
    rep.analysed["gadget_functions"] = n_fn
    rep.analysed["gadget_effects_examined"] = n_eff
    rep.analysed["availability_dependences"] = sorted(set(avail))[:20]
    rep.floor("gadget_functions", n_fn, 80)
