"""R1CS gadget rules shared by C01/C02/C03/C07/C13/C14/C15 (cfg R)."""


def check_gadget_codec(rep, factsR, pid):
    return


def check_gadget_group_ops(rep, cfgR, pid):
    return


def check_gadget_elligator(rep, factsR, pid):
    return
