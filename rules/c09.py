"""C09 — square-root-of-ratio four-case contract: the necessary structural part only.

That the routines return a correct root for every pair is number theory carried by data-dependent table lookups
(Sarkar) resp. 46 rounds of conditional moves (Tonelli-Shanks); it is NOT decided here (see not-applicable part).
Decided necessary conditions:
ZERO [S]   the two zero cases, in order, with the right flags and values, in both implementations;
IDX [S]    every table index is masked below the table length; window shifts and the pow chain telescope to N = 47;
TABLES [S] the lookup tables are built for all 2^8 digits with the exponents nu*2^k the indices assume;
CONST [S]  N, M, (M-1)/2, zeta^((1-M)/2), G = zeta^M, c5 of exact order 2^47, (q-1)/2, (t-1)/2;
TS [S]     the minimal backend follows the constant-time Tonelli-Shanks template (loop summaries) and the Euler-criterion split;
LEGENDRE   Field::legendre is zero-test then Euler's criterion with (p-1)/2.
"""
import re
from . import terms as Tm, consts as K
from .terms import mk, lit, field, TRUE, FALSE, variant
from . import curve as C
from .curve import Cfg
from .common import norm_path
from . import c10, statics
from .summaries import felem


def zero_cases(rep, cfg, path, tag):
    out = cfg.run(path)
    b = cfg.prog.bodies[path]
    n, d = [mk("param", p.get("name")) for p in b["params"][:2]]
    z = felem("fq", 0)
    flows = C.expand_flows(out.flows, deep=True)
    key = "ZERO/%s/%s" % (cfg.name, tag)
    ok1 = len(flows) >= 1 and len(flows[0][0]) == 1 and flows[0][0][0] in (Tm.eq(n, z), Tm.eq(z, n)) and flows[0][1] in (mk("tuple", TRUE, n), mk("tuple", TRUE, z))
    rep.ob(key + ":num=0", ok1, "first case must be `num == 0 -> (true, 0)`; got %s" % (
        ("[%s] => %s" % ("; ".join(Tm.show(c, maxdepth=4) for c in flows[0][0]), Tm.show(flows[0][1], maxdepth=4))) if flows else "no flows"),
        where=cfg.where(path), sample={"obligation": key + ":num=0", "flow": Tm.show(flows[0][1], maxdepth=3) if flows else None})
    ok2 = len(flows) >= 2 and len(flows[1][0]) == 2 and flows[1][0][0] is Tm.not_(flows[0][0][0]) and flows[1][0][1] in (Tm.eq(d, z), Tm.eq(z, d)) \
        and flows[1][1] in (mk("tuple", FALSE, d), mk("tuple", FALSE, z))
    rep.ob(key + ":den=0", ok2, "second case must be `num != 0 && den == 0 -> (false, 0)`; got %s" % (
        ("[%s] => %s" % ("; ".join(Tm.show(c, maxdepth=4) for c in flows[1][0]), Tm.show(flows[1][1], maxdepth=4))) if len(flows) > 1 else "missing"),
        where=cfg.where(path))
    if tag == "sqrt_ratio_zeta":
        # the table walk (IDX / WINDOW / TABLES rules) describes the ONE computed result: besides the two zero cases there must be exactly one
        # more return flow, reached under their negations only - an additional early return would hand out a value none of those rules saw
        extra = [(pc, v) for pc, v in flows[2:]]
        ok3 = len(extra) == 1 and len(extra[0][0]) == 2
        rep.ob(key + ":single-result", ok3,
               "besides `num == 0` and `den == 0` the routine must have exactly one return flow (the result of the full table walk), gated by nothing else; found %d further flow(s): %s" % (
                   len(extra), [[Tm.show(c, maxdepth=3) for c in pc[2:]] for pc, v in extra][:3]),
               where=cfg.where(path))
    return out


# ---- cfg A: Sarkar table walk ----------------------------------------------------------------------------

def table_name(base):
    if base.op == "field" and base.args[0].op == "static_val":
        return base.args[1]
    return None


def idx_rule(rep, cfg, path, out):
    N_ = K.two_adicity(K.Q - 1)[0]
    n_idx = 0
    products = {}      # id of enclosing use -> [(table K, shift)]
    hash_sites = 0
    for pc, kind, args, site in out.effects:
        if kind != "index" or not (site.get("fn") or "").endswith("sqrt_ratio_zeta"):
            continue
        base, idx = args
        bty = E_strip(site.get("base_ty") or "")
        tn = table_name(base)
        m = re.match(r"^(?:ark_std::boxed::Box<)?\[.*; (\d+)\]>?$", bty)
        if "HashMap" in bty:
            hash_sites += 1
            continue
        n_idx += 1
        key = "IDX/%s/%s@%s" % (cfg.name, tn or "?", ":".join((site.get("sp") or "").split(":")[1:2]))
        if not m:
            rep.ob(key, False, "index into a table of unknown length (%s)" % bty, where=site.get("sp"))
            continue
        ln = int(m.group(1))
        x = idx
        narrow = None          # the narrowest integer type the value passed through bounds it
        while x.op == "cast":
            w_ = {"u8": 8, "u16": 16, "u32": 32}.get(x.args[0])
            if w_ is not None:
                narrow = w_ if narrow is None else min(narrow, w_)
            x = x.args[1]
        ok = False
        why = Tm.show(idx, maxdepth=3)
        if narrow is not None and (1 << narrow) <= ln:
            ok = True
            why = "value passed through u%d (< %d), table length %d" % (narrow, 1 << narrow, ln)
        elif x.op == "band" and Tm.is_lit(x.args[1]):
            mask = x.args[1].args[0]
            ok = 0 <= mask < ln
            why = "mask %#x, table length %d" % (mask, ln)
        elif Tm.is_lit(x):
            ok = 0 <= x.args[0] < ln
            why = "constant %d, table length %d" % (x.args[0], ln)
        rep.ob(key, ok, "table index must be provably below the table length: %s" % why, where=site.get("sp"), nontrivial=True,
               sample={"obligation": key, "table": tn, "bound": why})
    rep.analysed["sarkar_table_indices"] = n_idx
    rep.analysed["sarkar_hashmap_lookups"] = hash_sites
    rep.ob("PANIC/%s/sqrt_ratio_zeta:s_lookup" % cfg.name, hash_sites == 6,
           "the %d HashMap lookups `s_lookup[&x]` panic on a miss; that x is always a 2^8-th root of unity among the 256 stored keys is C09's undecided part (tabled)" % hash_sites,
           where=cfg.where(path), nontrivial=False)
    return n_idx


def E_strip(s):
    from .engine import strip_ref, strip_lt
    return strip_ref(strip_lt(s))


def window_rule(rep, cfg, path, out):
    """shifts of the digit accumulation and the pow chain telescope to N; each product pairs table K with digit shift K - c"""
    N_ = K.two_adicity(K.Q - 1)[0]
    res = out.flows[-1][1] if out.flows else mk("bottom")
    allt = mk("tuple", res, *[a for pc, kind, args, site in out.effects if kind == "index" for a in args])
    shls = sorted({t.args[1].args[0] for t in Tm.subterms(allt) if t.op == "shl" and Tm.is_lit(t.args[1])})
    want = [7 + 8 * k for k in range(5)]
    rep.ob("WINDOW/%s/digit-shifts" % cfg.name, shls == want, "digit accumulation must use shifts %s (= N - 8(6-i)); found %s" % (want, shls), where=cfg.where(path),
           sample={"obligation": "WINDOW/digit-shifts", "shifts": shls})
    # pow chain: exponents that are powers of two applied to x5 ... must sum (in log2) to N - W
    pows = []
    for t in Tm.subterms(allt):
        if t.op == "pow" and t.args[1].op == "bigint_of" and Tm.is_lit(t.args[1].args[0]):
            e = t.args[1].args[0].args[0]
            if e > 0 and e & (e - 1) == 0:
                pows.append(e.bit_length() - 1)
    # squaring towers: a node is root^(2^j) when it is reached from root by powers with power-of-two exponents and squarings
    # (pow(v, 2^j), v*v, v.square()); the levels j at which a tower is *used* by anything but its own next step are the x_k
    tower = {}

    def tw(u):
        if id(u) in tower:
            return tower[id(u)]
        r = (u, 0)
        if u.op == "pow" and u.args[1].op == "bigint_of" and Tm.is_lit(u.args[1].args[0]):
            e = u.args[1].args[0].args[0]
            if isinstance(e, int) and e > 1 and e & (e - 1) == 0:
                b, j = tw(u.args[0])
                r = (b, j + e.bit_length() - 1)
        elif u.op == "mul" and len(u.args) == 2 and u.args[0] is u.args[1]:
            b, j = tw(u.args[0])
            r = (b, j + 1)
        tower[id(u)] = r
        return r
    used = {}
    nodes = Tm.subterms(allt)
    for par in nodes:
        for ch in par.args:
            if not isinstance(ch, Tm.T):
                continue
            b, j = tw(ch)
            if j == 0:
                continue
            pb, pj = tw(par)
            if pb is b and pj > j:
                continue        # the tower's own next step
            used.setdefault(b, set()).add(j)
    tall = {b: sorted(js) for b, js in used.items() if max(js) >= 7}
    want_levels = [8, 16, 24, 32, N_ - 8]
    rep.ob("WINDOW/%s/pow-chain" % cfg.name, len(tall) == 1 and list(tall.values())[0] == want_levels,
           "x4..x0 must be x5^(2^8), x5^(2^16), x5^(2^24), x5^(2^32), x5^(2^%d) (39 = N - W squarings in all); squaring towers and the levels used: %s" % (
               N_ - 8, [(Tm.show(b, maxdepth=2), js) for b, js in tall.items()]),
           where=cfg.where(path))
    # the returned flag is tied to the final correction factor: nonsquare_lookup = [1, zeta^((1-M)/2)] is indexed by the low bit of q0',
    # and `was_square` must be exactly "that bit is 0" (factor 1) - otherwise flag and value describe different cases
    fl, rv = (res.args[0], res.args[1]) if res.op == "tuple" and len(res.args) == 2 else (None, mk("bottom"))
    nsq = []
    for t in Tm.subterms(rv):
        if t.op == "index" and table_name(t.args[0]) == "nonsquare_lookup":
            x = t.args[1]
            while x.op == "cast":
                x = x.args[1]
            nsq.append(x)
    nsq = list({id(x): x for x in nsq}.values())
    ok_flag = False
    if fl is not None and len(nsq) == 1:
        b = nsq[0]
        is_low_bit = b.op == "band" and any(a_ is lit(1) for a_ in b.args)
        ok_flag = is_low_bit and (fl is Tm.eq(b, lit(0)) or fl is Tm.not_(Tm.eq(b, lit(1))) or fl is Tm.ne(b, lit(1)))
    rep.ob("WINDOW/%s/flag" % cfg.name, ok_flag,
           "the result value must carry exactly one nonsquare_lookup factor, indexed by the low bit b of q0', and was_square must be `b == 0`; indices %s, flag %s" % (
               [Tm.show(x, maxdepth=3) for x in nsq], Tm.show(fl, maxdepth=4) if fl is not None else None), where=cfg.where(path))
    # the looked-up keys and the result are PRODUCTS: key_i = x_i * (i table entries), result = uv-part * nonsquare factor * six table entries
    root_ = list(tall.keys())[0] if len(tall) == 1 else None

    def mul_leaves(t):
        if t is root_ or tw(t)[1] > 0:
            return [t]
        if t.op == "mul":
            return mul_leaves(t.args[0]) + mul_leaves(t.args[1])
        return [t]

    def is_entry(t):
        return t.op == "index" and table_name(t.args[0]) is not None and table_name(t.args[0]) != "s_lookup"

    def has_entry(t):
        return any(is_entry(u) for u in Tm.subterms(t))
    keys = [a[1] for pc, kind, a, site in out.effects if kind == "index" and table_name(a[0]) == "s_lookup"]
    badp = []
    for i, kx in enumerate(keys):
        lv = mul_leaves(kx)
        ent = [x for x in lv if is_entry(x)]
        rest = [x for x in lv if not is_entry(x)]
        root = list(tall.keys())[0] if len(tall) == 1 else None
        if any(has_entry(x) for x in rest) or len(rest) != 1 or tw(rest[0])[0] is not root or len(ent) != i:
            badp.append("key %d = %s" % (i, Tm.show(kx, maxdepth=3)))
    lv = mul_leaves(rv)
    ent = [x for x in lv if is_entry(x)]
    rest = [x for x in lv if not is_entry(x)]
    if any(has_entry(x) for x in rest) or len(ent) != 7:
        badp.append("result = %s (%d table factors)" % (Tm.show(rv, maxdepth=3), len(ent)))
    rep.ob("WINDOW/%s/products" % cfg.name, not badp and len(keys) == 6,
           "each of the six s_lookup keys must be x_k times table entries only, and the result a product with exactly seven table factors (nonsquare_lookup, g0..g40) "
           "- a sum in their place still type-checks: %s" % ("; ".join(badp[:3]) or "%d keys" % len(keys)), where=cfg.where(path))
    sexp = [t for t in Tm.subterms(allt) if t.op == "pow" and t.args[1].op == "bigint_of" and Tm.is_lit(t.args[1].args[0]) and t.args[1].args[0].args[0] == (1 << N_) - 1]
    rep.ob("WINDOW/%s/s-exponent" % cfg.name, len(sexp) >= 1, "den must be raised to 2^N - 1 = 2^%d - 1" % N_, where=cfg.where(path), nontrivial=False)
    # final halving
    # table/shift pairing inside each product
    groups = {}
    misaligned = []
    for t in Tm.subterms(allt):
        if t.op == "index" and table_name(t.args[0]) and re.match(r"g\d+$", table_name(t.args[0])):
            kk = int(table_name(t.args[0])[1:])
            x = t.args[1]
            while x.op == "cast":
                x = x.args[1]
            sh = None
            if x.op == "band":
                y = x.args[0]
                if y.op == "shr" and Tm.is_lit(y.args[1]) and y.args[1].args[0] % 8 == 0 and y.args[1].args[0] > 0:
                    sh, core = y.args[1].args[0], y.args[0]
                elif y.op == "shr" and Tm.is_lit(y.args[1]) and y.args[1].args[0] % 8 != 0 and not (y.args[0].op == "iadd" and y.args[1].args[0] == 1):
                    # a digit cut at a position that is not a multiple of the window width (the only odd shift is the final halving (t+1)>>1)
                    misaligned.append((kk, y.args[1].args[0]))
                    continue
                else:
                    sh, core = 0, y
                groups.setdefault(core, set()).add((kk, sh))
    bad = []
    for core, pairs in groups.items():
        diffs = {k2 - s for k2, s in pairs}
        shifts = sorted(s for k2, s in pairs)
        if len(diffs) != 1 or shifts != [8 * i for i in range(len(shifts))]:
            bad.append(sorted(pairs))
    rep.ob("WINDOW/%s/table-digit-pairing" % cfg.name, not bad and not misaligned and len(groups) >= 6,
           "within each product, table g_K must be indexed by the digit at shift K - c with contiguous 8-bit digits; %d digit words examined; inconsistent: %s; digits cut off the 8-bit grid (table, shift): %s" % (len(groups), bad[:2], misaligned[:3]),
           where=cfg.where(path), sample={"obligation": "WINDOW/table-digit-pairing", "groups": len(groups)})


def tables_rule(rep, cfg):
    p = cfg.one(rep, "SquareRootTables::new", lambda x: x.endswith("SquareRootTables::new"))
    if not p:
        return
    out = cfg.run(p)
    v = out.value
    N_ = K.two_adicity(K.Q - 1)[0]
    gpath = "ark_curve::constants::G"
    gv, _, _ = statics.eval_static(cfg.prog, gpath)
    if v.op != "struct":
        rep.ob("TABLES/%s/shape" % cfg.name, False, "SquareRootTables::new does not return a struct literal", where=cfg.where(p))
        return
    d = dict(zip(v.args[1], v.args[2:]))

    def exp_mults(n_, item):
        mults = set()
        for u in Tm.subterms(n_):
            if u.op == "pow" and u.args[0] is gv:
                e = u.args[1]
                if e.op == "bigint_of":
                    e = e.args[0]
                if e.op == "convert":
                    e = e.args[2]
                def is_item(x):
                    while x.op == "cast" and x.args[0] in ("u64", "u128", "usize"):
                        x = x.args[1]        # a widening cast of the row index
                    return x is item
                if is_item(e):
                    mults.add(1)
                elif e.op == "imul" and is_item(e.args[0]) and Tm.is_lit(e.args[1]):
                    mults.add(e.args[1].args[0])
                elif e.op == "imul" and is_item(e.args[1]) and Tm.is_lit(e.args[0]):
                    mults.add(e.args[0].args[0])
        return mults

    def fold_facts(t):
        """(range start, range end, exponent multipliers, node) of the loop / iterator chain that fills a table"""
        res = []
        for s_ in Tm.subterms(t):
            if s_.op == "seq_map_t":
                item, body, src = s_.args
                rng = dict(zip(src.args[1], src.args[2:])) if src.op == "struct" and src.args[0] == "core::ops::Range" else {}
                mults = exp_mults(body, item)
                if mults and rng:
                    res.append((rng.get("start"), rng.get("end"), mults, s_))
                continue
            if s_.op == "fold":
                it, item, accs, inits, nexts = s_.args
                rng = dict(zip(it.args[1], it.args[2:])) if it.op == "struct" and it.args[0] == "core::ops::Range" else {}
                mults = set()
                for n_ in nexts:
                    for u in Tm.subterms(n_):
                        if u.op == "pow" and u.args[0] is gv:
                            e = u.args[1]
                            if e.op == "bigint_of":
                                e = e.args[0]
                            if e.op == "convert":
                                e = e.args[2]
                            if e is item:
                                mults.add(1)
                            elif e.op == "imul" and e.args[0] is item and Tm.is_lit(e.args[1]):
                                mults.add(e.args[1].args[0])
                            elif e.op == "imul" and e.args[1] is item and Tm.is_lit(e.args[0]):
                                mults.add(e.args[0].args[0])
                if not mults and len(accs) == 2:
                    # rows by recurrence: (table, entry) = ([], 1); per nu: table.push(entry); entry *= G^c  -  row nu is G^(nu*c)
                    for iv in (0, 1):
                        vec, ent = accs[iv], accs[1 - iv]
                        if inits[iv].op == "empty" and inits[1 - iv] is felem("fq", 1) and nexts[iv] is mk("vec_push", vec, ent) \
                                and nexts[1 - iv].op == "mul" and ent in nexts[1 - iv].args:
                            st = [x for x in nexts[1 - iv].args if x is not ent]
                            if len(st) == 1 and st[0].op == "pow" and st[0].args[0] is gv:
                                e = st[0].args[1]
                                if e.op == "bigint_of":
                                    e = e.args[0]
                                if e.op == "convert":
                                    e = e.args[2]
                                if Tm.is_lit(e) and isinstance(e.args[0], int):
                                    mults.add(e.args[0])
                if mults:
                    res.append((rng.get("start"), rng.get("end"), mults, s_))
        return res
    for kk in (0, 8, 16, 24, 32, 40):
        t = d.get("g%d" % kk)
        ff = fold_facts(t) if t is not None else []
        ok = len(ff) == 1 and ff[0][0] is lit(0) and ff[0][1] is lit(256) and ff[0][2] == {1 << kk}
        rep.ob("TABLES/%s/g%d" % (cfg.name, kk), ok,
               "table g%d must hold G^(nu * 2^%d) for nu in 0..256; found %s" % (kk, kk, [(Tm.show(a), Tm.show(b), sorted(m)) for a, b, m, _ in ff] if ff else "no filling loop"),
               where=cfg.where(p), sample={"obligation": "TABLES/g%d" % kk, "rows": 256, "exponent_multiplier": 1 << kk})
    t = d.get("s_lookup")
    ff = fold_facts(t) if t is not None else []
    ok = len(ff) == 1 and ff[0][0] is lit(0) and ff[0][1] is lit(256) and ff[0][2] == {1 << (N_ - 8)}
    ins_ok = False
    if ff:
        for u in Tm.subterms(ff[0][3]):
            if u.op == "map_insert" and u.args[1].op == "inv" and u.args[2] is ff[0][3].args[1]:
                ins_ok = True
        nd = ff[0][3]
        if nd.op == "seq_map_t" and nd.args[1].op == "tuple" and len(nd.args[1].args) == 2 and nd.args[1].args[0].op == "inv" and nd.args[1].args[1] is nd.args[0]:
            ins_ok = True      # (0..256).map(|nu| (key(nu)^-1, nu)).collect::<HashMap<_, _>>()
    rep.ob("TABLES/%s/s_lookup" % cfg.name, ok and ins_ok,
           "s_lookup must map (G^(nu * 2^(N-W)))^-1 -> nu for nu in 0..256 (N-W = %d); loop facts %s, inserts inverse->nu: %s" % (
               N_ - 8, [(Tm.show(a), Tm.show(b), sorted(m)) for a, b, m, _ in ff], ins_ok), where=cfg.where(p))
    ns = d.get("nonsquare_lookup")
    zv, _, _ = statics.eval_static(cfg.prog, "ark_curve::constants::ZETA_TO_ONE_MINUS_M_DIV_TWO")
    ok = ns is not None and ns.op == "array" and len(ns.args) == 2 and ns.args[0] is felem("fq", 1) and ns.args[1] is zv
    rep.ob("TABLES/%s/nonsquare_lookup" % cfg.name, ok, "nonsquare_lookup must be [1, zeta^((1-M)/2)]; got %s" % (Tm.show(ns, maxdepth=3) if ns is not None else None), where=cfg.where(p))
    for u in out.unmodelled:
        if "pop" not in u and "new" not in u:
            rep.unmodelled.append("tables: " + u)


def legendre_rule(rep, cfg):
    for f in ("fq", "fr", "fp"):
        ps = cfg.find(lambda x: re.match(r"fields::%s::arkworks::<impl ark_ff::Field for .*>::legendre$" % f, x) is not None)
        if len(ps) != 1:
            rep.fail_closed("legendre of %s not found" % f)
            continue
        out = cfg.run(ps[0])
        S_ = mk("param", "self")
        p = K.MODULI[f]
        flows = C.expand_flows(out.flows)
        key = "LEGENDRE/%s/%s" % (cfg.name, f)
        ok = False
        why = "flows: %s" % [([Tm.show(c, maxdepth=4) for c in pc], Tm.show(v, maxdepth=2)) for pc, v in flows][:3]
        if len(flows) == 3:
            (pc0, v0), (pc1, v1), (pc2, v2) = flows
            z = Tm.eq(S_, felem(f, 0))
            c1 = pc1[-1] if pc1 else TRUE
            euler = False
            if c1.op == "eq":
                pw = [a for a in c1.args if a.op == "pow"]
                one = [a for a in c1.args if a is felem(f, 1)]
                if pw and one and pw[0].args[0] is S_:
                    try:
                        euler = statics.fold(pw[0].args[1]) == (p - 1) // 2
                    except statics.NotConst:
                        euler = False
            ok = pc0 == (z,) and v0 is variant("Zero") and pc1[0] is Tm.not_(z) and euler and v1 is variant("QuadraticResidue") and v2 is variant("QuadraticNonResidue")
        rep.ob(key, ok, "legendre must be: 0 -> Zero; self^((p-1)/2) == 1 -> QuadraticResidue; else QuadraticNonResidue. %s" % why, where=cfg.where(ps[0]))


# ---- cfg M: Euler split + constant-time Tonelli-Shanks ----------------------------------------------------------

def min_rules(rep, cfg):
    q = K.Q
    s, t = K.two_adicity(q - 1)
    p = cfg.one(rep, "non_arkworks_sqrt_ratio_zeta", lambda x: x.endswith("::non_arkworks_sqrt_ratio_zeta"))
    ps = cfg.one(rep, "our_sqrt", lambda x: x.endswith("::our_sqrt"))
    pp = cfg.one(rep, "pow_le_limbs", lambda x: x.endswith("::pow_le_limbs"))
    if not (p and ps and pp):
        return
    zero_cases(rep, cfg, p, "non_arkworks_sqrt_ratio_zeta")
    loc = {ps: (lambda ctx: mk("ts_sqrt", ctx.args[0])), pp: (lambda ctx: mk("pow", ctx.args[0], ctx.args[1]))}
    out = cfg.run(p, local=loc)
    N = cfg.norm
    n, d = mk("param", "num"), mk("param", "den")
    x = mk("mul", n, mk("inv", d))
    zc = cfg.prog.consts.get("min_curve::constants::ZETA")
    zeta = K.felt(zc["value"]["val"], "fq")[1]
    flows = C.expand_flows(out.flows, deep=True)
    if len(flows) == 3 and flows[2][1].op == "tuple" and len(flows[2][1].args) == 2 and flows[2][1].args[0].op in ("eq", "not"):
        # `(c, f(c ? a : b))`: the flag is the test itself - split on it
        pc, v = flows[2]
        c_ = v.args[0]
        if c_.op == "not":
            c_ = c_.args[0]
        flows = flows[:2] + [(pc + (c_,), Tm.assume(v, c_, True)), (pc + (Tm.not_(c_),), Tm.assume(v, c_, False))]
    ok = False
    why = ""
    if len(flows) == 4:
        (pc2, v2), (pc3, v3) = flows[2], flows[3]
        c = pc2[-1]
        euler = False
        if c.op == "eq":
            pw = [a for a in c.args if a.op == "pow"]
            if pw and N.pkey(N.poly(pw[0].args[0])) == N.pkey(N.poly(x)):
                try:
                    euler = statics.fold(pw[0].args[1]) == (q - 1) // 2 and any(a is felem("fq", 1) for a in c.args)
                except statics.NotConst:
                    euler = False
        sq_ok = v2.op == "tuple" and v2.args[0] is TRUE and v2.args[1].op == "ts_sqrt" and N.pkey(N.poly(v2.args[1].args[0])) == N.pkey(N.poly(x))
        ns_ok = v3.op == "tuple" and v3.args[0] is FALSE and v3.args[1].op == "ts_sqrt" and \
            N.pkey(N.poly(v3.args[1].args[0])) == N.pkey(N.poly(mk("mul", felem("fq", zeta), x)))
        ok = euler and sq_ok and ns_ok
        why = "Euler test with (q-1)/2 on num/den: %s; square branch (true, sqrt(num/den)): %s; non-square branch (false, sqrt(zeta*num/den)): %s" % (euler, sq_ok, ns_ok)
    else:
        why = "expected 4 return flows, found %d" % len(flows)
    rep.ob("TS/M/euler-split", ok, "after the zero cases: x = num/den, symbol = x^((q-1)/2), then (true, sqrt(x)) or (false, sqrt(zeta*x)). " + why, where=cfg.where(p),
           sample={"obligation": "TS/M/euler-split", "verdict": why})
    # pow_le_limbs: LSB-first square-and-multiply (same template rule as C10/EXP)
    o = cfg.run(pp)
    okp, whyp = c10.exp_template(o.value, mk("param", "self"), mk("param", "limbs"))
    rep.ob("TS/M/pow_le_limbs", okp and not o.unmodelled, "pow_le_limbs must honour every bit of every limb: " + whyp, where=cfg.where(pp))
    # our_sqrt: constant-time Tonelli-Shanks (hash-to-curve draft, App. I.4)
    o = cfg.run(ps, local={pp: loc[pp]})
    v = o.value
    probs = []
    X = mk("param", "self")
    c5 = cfg.prog.consts.get("fields::fq::<impl fields::fq::u32::wrapper::Fq>::QUADRATIC_NON_RESIDUE_TO_TRACE")
    c5v = K.felt(c5["value"]["val"], "fq")[1] if c5 else None
    desc = None
    used_while = False
    if v.op == "proj" and v.args[0].op == "fold":
        it, i, accs, inits, nexts = v.args[0].args
        # iterator: (2..=c1).rev()
        okit = it.op == "rev" and it.args[0].op == "range_incl" and it.args[0].args[0] is lit(2) and it.args[0].args[1] is lit(s)
        desc = (okit, Tm.show(it, maxdepth=4), i, accs, inits, nexts, v.args[1])
    else:
        # the same loop driven by a counter: `let mut i = c1; while i >= 2 { ..; i -= 1 }` - one iteration's state transformer
        for pc_, kind_, a_, site_ in o.effects:
            if kind_ != "while_state" or v not in a_[1] or any(x is None for x in a_[2]):
                continue
            ent_, syms_, post_ = a_
            ctr = [k for k, c_ in enumerate(syms_) if ent_[k] is lit(s) and post_[k] is Tm.intop("isub", c_, lit(1))]
            if len(ctr) != 1:
                continue
            ci = ctr[0]
            cs = syms_[ci]
            guards = site_.get("pc_after") or ()
            okit = any(g is mk("ge", cs, lit(2)) or g is mk("gt", cs, lit(1)) for g in guards)
            keep = [k for k in range(len(syms_)) if k != ci]
            desc = (okit, "while %s" % [Tm.show(g, maxdepth=3) for g in guards], cs, tuple(syms_[k] for k in keep), tuple(ent_[k] for k in keep),
                    tuple(post_[k] for k in keep), [syms_[k] for k in keep].index(v))
            used_while = True
    if desc is None:
        probs.append("result is not the state of the outer loop: %s" % Tm.show(v, maxdepth=3))
    else:
        okit, it_s, i, accs, inits, nexts, ret_idx = desc
        if not okit:
            probs.append("outer loop must run i = c1, c1-1, ..., 2 with c1 = %d; iterator %s" % (s, it_s))
        # identify carried vars by their initial values
        z0p = mk("pow", X, None)
        roles = {}
        for k, t0 in enumerate(inits):
            if t0.op == "felem" and c5v is not None and t0.args[1] == c5v:
                roles["c"] = k
        def pk(t_):
            return N.pkey(N.poly(t_))
        powx = [u for t0 in inits for u in Tm.subterms(t0) if u.op == "pow" and u.args[0] is X]
        if not powx:
            probs.append("z must start from x^c3")
        else:
            z1 = powx[0]
            try:
                c3 = statics.fold(z1.args[1])
            except statics.NotConst:
                c3 = None
            if c3 != (t - 1) // 2:
                probs.append("c3 must be (t-1)/2; exponent used: %s" % c3)
            zinit = pk(mk("mul", z1, X))
            tinit = pk(mk("mul", mk("mul", z1, z1), X))
            for k, t0 in enumerate(inits):
                if k in roles.values():
                    continue
                if pk(t0) == zinit and "z" not in roles:
                    roles["z"] = k
                elif pk(t0) == tinit:
                    roles.setdefault("t" if "t" not in roles else "b", k)
        if set(roles) != {"z", "t", "b", "c"}:
            probs.append("initial state must be z = x^c3 * x, t = z0^2 * x, b = t, c = c5 (exact order 2^%d); identified roles: %s" % (s, sorted(roles)))
        else:
            if ret_idx != roles["z"]:
                probs.append("must return z")
            z_, t_, b_, c_ = [accs[roles[r]] for r in ("z", "t", "b", "c")]
            nb = nexts[roles["b"]]
            nz, nt, nc = nexts[roles["z"]], nexts[roles["t"]], nexts[roles["c"]]
            # inner loop: b squared (i-2) times
            inner = [u for u in Tm.subterms(mk("tuple", nz, nt)) if u.op == "fold"]
            binner = None
            for u in inner:
                it2, j, a2, i2, n2 = u.args
                # number of iterations of the inner loop, whichever way the range is spelled (1..=n or 0..n)
                cnt = None
                if it2.op == "range_incl" and it2.args[0] is lit(1):
                    cnt = it2.args[1]
                elif it2.op == "struct" and it2.args[0] == "core::ops::Range":
                    rg = dict(zip(it2.args[1], it2.args[2:]))
                    if rg.get("start") is lit(0):
                        cnt = rg.get("end")
                    elif rg.get("start") is lit(1) and rg.get("end") is Tm.intop("isub", i, lit(1)):
                        cnt = Tm.intop("isub", i, lit(2))
                if cnt is Tm.intop("isub", i, lit(2)) and len(a2) == 1 and i2[0] is b_ \
                        and pk(n2[0]) == pk(mk("mul", a2[0], a2[0])):
                    binner = mk("proj", u, 0)
            if binner is None:
                probs.append("step 7-8: b must be squared i-2 times (inner loop j = 1..=i-2, b = b*b)")
            else:
                flag = None
                if nz.op == "ite" and pk(nz.args[1]) == pk(mk("mul", z_, c_)) and nz.args[2] is z_:
                    flag = nz.args[0]
                elif nz.op == "ite" and pk(nz.args[2]) == pk(mk("mul", z_, c_)) and nz.args[1] is z_:
                    flag = Tm.not_(nz.args[0])
                want_flag_ok = flag is not None and is_ne_one(flag, binner)
                if not want_flag_ok:
                    probs.append("step 9: z = CMOV(z, z*c, b != 1); got %s" % Tm.show(nz, maxdepth=5))
                if pk(nc) != pk(mk("mul", c_, c_)):
                    probs.append("step 10: c = c*c")
                cc = mk("mul", c_, c_)
                okt = nt.op == "ite" and ((pk(nt.args[1]) == pk(mk("mul", t_, cc)) and nt.args[2] is t_ and is_ne_one(nt.args[0], binner)) or
                                          (pk(nt.args[2]) == pk(mk("mul", t_, cc)) and nt.args[1] is t_ and is_ne_one(Tm.not_(nt.args[0]), binner)))
                if not okt:
                    probs.append("step 11: t = CMOV(t, t*c^2, b != 1); got %s" % Tm.show(nt, maxdepth=5))
                if nb is not nt:
                    probs.append("step 12: b = t")
    for u in o.unmodelled:
        if used_while and u.startswith("unmodelled loop (While)"):
            continue        # that loop is the one judged above through its state transformer
        probs.append("construct outside the template: " + u)
    rep.ob("TS/M/our_sqrt", not probs, "our_sqrt must follow the constant-time Tonelli-Shanks template (draft-irtf-cfrg-hash-to-curve App. I.4): " +
           ("template matched" if not probs else "; ".join(probs[:4])), where=cfg.where(ps), sample={"obligation": "TS/M/our_sqrt", "problems": probs[:3]})
    # constants
    if c5v is not None:
        rep.ob("CONST/M/c5", pow(c5v, 1 << s, q) == 1 and pow(c5v, 1 << (s - 1), q) != 1, "QUADRATIC_NON_RESIDUE_TO_TRACE must have exact order 2^%d" % s, where=c5["sp"])


def is_ne_one(flag, b):
    """flag is `b != 1` expressed through subtle (!b.ct_eq(&ONE)), with the negation at any level"""
    x = flag
    neg = False
    while True:
        if x.op == "choice_true":
            x = x.args[0]
        elif x.op in ("choice_not", "not"):
            neg, x = not neg, x.args[0]
        elif x.op == "ne":
            neg, x = not neg, mk("eq", *x.args)
        else:
            break
    if x.op == "eq" and neg:
        return (x.args[0] is b and x.args[1] is felem("fq", 1)) or (x.args[1] is b and x.args[0] is felem("fq", 1))
    return False


def field_sqrt_rule(rep, cfg):
    """Field::sqrt / sqrt_in_place of the three fields.  Inherited from arkworks (today's tree): the generic Tonelli-Shanks / 3-mod-4 routine on
    SQRT_PRECOMP - trusted code on constants that the CONST rule checks.  Overridden in the crate: the override is interpreted with the square-root-of-
    ratio routine replaced by its CONTRACT (zero cases included) and must (a) map 0 to Some(0) and (b) return, when it returns Some(y), a y with
    y^2 = self as a polynomial identity modulo the contract's relation v^2 * den = num."""
    n = 0
    for im in cfg.facts["impls"]:
        if im.get("trait_def") != "ark_ff::Field":
            continue
        m = re.search(r"fields::(fq|fr|fp)::u64::wrapper", im.get("self", ""))
        if not m:
            continue
        f = m.group(1)
        inh = im.get("inherited") or []
        for meth in ("sqrt", "sqrt_in_place"):
            n += 1
            key = "SQRT/%s/%s::%s" % (cfg.name, f, meth)
            if meth in inh:
                rep.ob(key, True, "inherited arkworks default on SQRT_PRECOMP (constants decided by the CONST rule)", nontrivial=False)
                continue
            path = next((it["path"] for it in im["items"] if it["name"] == meth), None)
            if path is None or cfg.prog.body(path) is None:
                rep.ob(key, False, "overriding body not found")
                continue
            z, one = felem(f, 0), felem(f, 1)

            def contract(ctx):
                a = ctx.args
                return Tm.ite(Tm.eq(a[0], z), mk("tuple", TRUE, z),
                              Tm.ite(Tm.eq(a[1], z), mk("tuple", FALSE, z), mk("tuple", mk("isqrt_sq", a[0], a[1]), mk("isqrt_v", a[0], a[1]))))
            loc = {p_: contract for p_ in cfg.prog.bodies if p_.endswith("::sqrt_ratio_zeta") or p_.endswith("::non_arkworks_sqrt_ratio_zeta")}
            from . import engine as E_, summaries as S_
            I = E_.Interp(cfg.prog, S_.Summaries(local=loc), {})
            out0 = I.run(path, args=[z])
            v0 = out0.value if meth == "sqrt" else None
            ok0 = meth != "sqrt" or v0 is variant("Some", z)
            # general shape
            out = cfg.run(path, local=loc)
            bad = []
            if meth == "sqrt":
                for pc, v in C.expand_flows(out.flows):
                    pc, v = C.under_pc(pc, v)        # simplify the value (and later conditions) under the path condition
                    if v.op == "variant" and v.args[0] == "Some":
                        flags = [c for c in pc if c.op == "isqrt_sq"]
                        N = cfg.norm
                        y, x = v.args[1], mk("param", "self")
                        rel_ok = False
                        if any(c_ is Tm.eq(x, z) or c_ is Tm.eq(z, x) for c_ in pc):
                            rel_ok = not N.poly(Tm.subst(y, {x: z}))          # self = 0 on this flow: the root of 0 is 0
                        for fl in flags:
                            num, den = fl.args
                            vv = N.poly(mk("isqrt_v", num, den))
                            (vm, _), = vv.items()
                            vid = vm[0][0]
                            P_ = N.add(N.mul(N.poly(y), N.poly(y)), N.poly(x), -1)
                            A_, B_, C_ = {}, {}, {}
                            for mono, c in P_.items():
                                d_ = dict(mono)
                                e = d_.pop(vid, 0)
                                rest = tuple(sorted(d_.items()))
                                tgt = A_ if e == 2 else (B_ if e == 1 else (C_ if e == 0 else None))
                                if tgt is None:
                                    B_[("deg", e)] = 1
                                    continue
                                tgt[rest] = (tgt.get(rest, 0) + c) % N.p
                            # y^2 - x = A v^2 + B v + C  ==  (A*num + C*den)/den  modulo v^2*den = num   (den != 0 on this flow)
                            lhs = N.add(N.mul(A_, N.poly(num)), N.mul(C_, N.poly(den)))
                            if not B_ and not lhs:
                                rel_ok = True
                        if not rel_ok:
                            bad.append("Some(%s) is not a root of self modulo the contract" % Tm.show(y, maxdepth=4))
            rep.ob(key, ok0 and not bad and not out.unmodelled,
                   "overriding %s must map 0 to Some(0) (got %s) and return roots of self: %s" % (meth, Tm.show(v0, maxdepth=3) if v0 is not None else "-", "; ".join(bad) or "ok"),
                   where=cfg.where(path))
    return n


def run(rep, facts, tier):
    rep.explanation = (
        "Only the structural necessary conditions of the contract are decided (see DESIGN.md, C09 is largely not applicable to static analysis): the zero cases as "
        "return flows, mask-below-length for every table index, the window/shift/pow-chain integers telescoping to the 2-adicity 47, the table-filling loops "
        "(range 0..256 and exponent multipliers) as loop summaries, constants by folding, the Euler split and the constant-time Tonelli-Shanks loop template of the "
        "minimal backend, and Field::legendre. That a correct root is returned for every input is number theory that is NOT decided.")
    rep.rules += ["ZERO", "IDX", "WINDOW", "TABLES", "CONST", "TS", "LEGENDRE", "PANIC"]
    rep.trusted += ["summary table", "python integer arithmetic"]
    rep.assumptions += ["NOT DECIDED: sqrt_ratio_zeta / non_arkworks_sqrt_ratio_zeta return a correct root and flag for every (num, den); absence of HashMap misses; Field::sqrt correctness",
                        "field ops are ring ops (C10)"]
    for name, f in facts.items():
        if name == "R":
            continue
        cfg = Cfg(f)
        if name == "A":
            p = cfg.one(rep, "sqrt_ratio_zeta", lambda x: x.endswith("::sqrt_ratio_zeta") and "non_arkworks" not in x)
            if p:
                out = zero_cases(rep, cfg, p, "sqrt_ratio_zeta")
                n = idx_rule(rep, cfg, p, out)
                rep.floor("sarkar_table_indices", n, 22)
                window_rule(rep, cfg, p, out)
            tables_rule(rep, cfg)
            statics.check_statics(rep, f, name)
            legendre_rule(rep, cfg)
            rep.floor("field_sqrt_forms", field_sqrt_rule(rep, cfg), 6)
        else:
            min_rules(rep, cfg)
    # field constants the square roots rely on (shared with C17)
    from . import c17
    for name, f in facts.items():
        if name != "R":
            c17.check_field(rep, f, name, "fq")
