"""FWD rule family for the group-operator layer (C04, C05, C12): every operator impl the compiler lists
reduces, after inlining, to the canonical abstract operation on *its own* operands."""
import re
from . import terms as Tm
from .terms import mk, lit, field, TRUE, FALSE
from . import curve as C
from .common import norm_path
from .summaries import sort_of

POINT_SORTS = ("element", "affinepoint")
OP_TRAITS = {
    "core::ops::Add": "add", "core::ops::Sub": "sub", "core::ops::Neg": "neg",
    "core::ops::AddAssign": "add_assign", "core::ops::SubAssign": "sub_assign",
    "core::ops::Mul": "mul", "core::ops::MulAssign": "mul_assign", "core::iter::Sum": "sum",
}


def den(t, memo=None):
    """denotation: strip representation wrappers so that a term names the group element it denotes"""
    if memo is None:
        memo = {}
    if not isinstance(t, Tm.T):
        return t
    r = memo.get(t)
    if r is not None:
        return r
    op = t.op
    if op == "struct" and (t.args[0].endswith("::Element") or t.args[0].endswith("::AffinePoint")) and t.args[1] == ("inner",):
        r = den(t.args[2], memo)
    elif op in ("to_teproj", "to_teaff"):
        r = den(t.args[0], memo)
    elif op == "update_field" and t.args[1] == "inner":
        r = den(t.args[2], memo)      # `self.inner = v` / in-place update of the wrapped point
    elif op == "field" and t.args[1] == "inner":
        # `.inner` of any element-valued term denotes that element
        r = den(t.args[0], memo)
    elif op == "gsmul_limbs" and t.args[1].op == "canon_limbs":
        r = mk("gsmul", den(t.args[0], memo), t.args[1].args[0])
    else:
        nargs = tuple(den(a, memo) if isinstance(a, Tm.T) else (tuple(den(x, memo) for x in a) if isinstance(a, tuple) else a) for a in t.args)
        r = t if all(x is y for x, y in zip(nargs, t.args)) else Tm.rebuild(op, nargs)
    memo[t] = r
    return r


def base_summaries_M(cfg, rep):
    """cfg M: the three hand-written base routines are summarised (their formulas are checked by the ideal rule)"""
    loc = {}
    for path, b in cfg.prog.bodies.items():
        if b.get("impl_self") == "min_curve::element::Element":
            tr = b.get("impl_trait_def")
            it = b.get("impl_trait", "")
            if tr == "core::ops::Add" and path == "<min_curve::element::Element as core::ops::Add>::add":
                loc[path] = lambda ctx: mk("gadd", ctx.args[0], ctx.args[1])
            if tr == "core::ops::Neg" and path.endswith("::neg"):
                loc[path] = lambda ctx: mk("gneg", ctx.args[0])
        if path == "min_curve::element::Element::double":
            loc[path] = lambda ctx: mk("gdbl", ctx.args[0])
        if path == "min_curve::element::Element::scalar_mul_both":
            loc[path] = lambda ctx: mk("gsmul_limbs", ctx.args[0], ctx.args[1])
        if path in ("min_curve::element::Element::scalar_mul", "min_curve::element::Element::scalar_mul_vartime") and \
                "min_curve::element::Element::scalar_mul_both" not in cfg.prog.bodies:
            # no shared const-generic helper: the two public routines are the ladders themselves (each judged by the LADDER rule)
            loc[path] = lambda ctx: mk("gsmul_limbs", ctx.args[0], ctx.args[1])
        if path.endswith("::conditional_select") and b.get("impl_self") == "min_curve::element::Element":
            loc[path] = lambda ctx: Tm.ite(mk("choice_true", ctx.args[2]), ctx.args[1], ctx.args[0])
    # the addition formula may live in an inherent helper that the operator impl forwards to (and that sibling impls call directly):
    # an inherent two-element function whose fully inlined coordinates are those of `<Element as Add>::add` IS the base addition
    base_add = "<min_curve::element::Element as core::ops::Add>::add"
    if base_add in cfg.prog.bodies:
        cache = cfg.cache.setdefault("$add_equivalents", None)
        if cache is None:
            cache = []
            try:
                ref = cfg.run(base_add)
                rc = C.coords(ref.value)
                rb = cfg.prog.bodies[base_add]
                rnames = [p_.get("name") for p_ in rb["params"]]
                N = cfg.norm
                for path, b in cfg.prog.bodies.items():
                    if not path.startswith("min_curve::element::Element::") or b.get("dk") not in ("AssocFn", "Fn") or len(b.get("params", [])) != 2:
                        continue
                    ins = [str(x) for x in (b.get("inputs") or [])]
                    if not all("min_curve::element::Element" in x for x in ins) or "Element" not in str(b.get("output", "")):
                        continue
                    o2 = cfg.run(path)
                    c2 = C.coords(o2.value)
                    if rc is None or c2 is None or o2.unmodelled:
                        continue
                    n2 = [p_.get("name") for p_ in b["params"]]
                    ren = {mk("param", n2[0]): mk("param", rnames[0]), mk("param", n2[1]): mk("param", rnames[1])}
                    if all(N.pkey(N.poly(Tm.subst(x, ren))) == N.pkey(N.poly(y)) for x, y in zip(c2, rc)):
                        cache.append(path)
            except Exception:
                cache = []
            cfg.cache["$add_equivalents"] = cache
        for path in cache:
            loc[path] = lambda ctx: mk("gadd", ctx.args[0], ctx.args[1])
    return loc


def enumerate_ops(cfg, traits):
    """[(path, body, trait-def, operand sorts)] for impls of the given traits involving group points"""
    res = []
    for path, b in cfg.prog.bodies.items():
        tr = b.get("impl_trait_def")
        if tr not in traits:
            continue
        name = path.split("::")[-1]
        if name != OP_TRAITS[tr]:
            continue
        ins = b.get("inputs", [])
        sorts = [sort_of(x)[0] for x in ins]
        st = sort_of(b.get("impl_self", ""))[0]
        if tr == "core::iter::Sum":
            if st in POINT_SORTS:
                res.append((path, b, tr, sorts))
            continue
        if any(s in POINT_SORTS for s in sorts) or st in POINT_SORTS:
            res.append((path, b, tr, sorts))
    return sorted(res, key=lambda x: x[0])


def operand_terms(b):
    names = [p.get("name", "p%d" % i) if p.get("k") == "Bind" else "p%d" % i for i, p in enumerate(b.get("params", []))]
    return [mk("param", n) for n in names]


def check_fwd(rep, cfg, path, b, tr, sorts, loc, prop):
    """returns True when the obligation holds"""
    out = cfg.run(path, local=loc)
    ps = operand_terms(b)
    key = "FWD/%s/%s" % (cfg.name, norm_path(path))
    memo = {}
    got = den(out.value, memo)
    kind = OP_TRAITS[tr]
    ok, want_s = False, ""
    if kind in ("add", "sub"):
        l, r = ps[0], ps[1]
        if kind == "add":
            want = [mk("gadd", l, r), mk("gadd", r, l)]
            want_s = "G_ADD(%s, %s)" % (Tm.show(l), Tm.show(r))
        else:
            want = [mk("gadd", l, mk("gneg", r))]
            want_s = "G_ADD(%s, G_NEG(%s))" % (Tm.show(l), Tm.show(r))
        ok = any(got is w for w in want)
    elif kind == "neg":
        want_s = "G_NEG(%s)" % Tm.show(ps[0])
        ok = got is mk("gneg", ps[0])
    elif kind in ("add_assign", "sub_assign"):
        l, r = ps[0], ps[1]
        post = den(out.outs.get(0, mk("bottom")), memo)
        want = [mk("gadd", l, r), mk("gadd", r, l)] if kind == "add_assign" else [mk("gadd", l, mk("gneg", r))]
        want_s = "*self := " + Tm.show(want[0])
        got = post
        ok = any(post is w for w in want)
    elif kind == "mul":
        pi = [i for i, s in enumerate(sorts) if s in POINT_SORTS]
        si = [i for i, s in enumerate(sorts) if s == "field"]
        if len(pi) == 1 and len(si) == 1:
            want = mk("gsmul", ps[pi[0]], ps[si[0]])
            want_s = Tm.show(want)
            ok = got is want
        else:
            return None
    elif kind == "mul_assign":
        if sorts[0] in POINT_SORTS and sorts[1] == "field":
            post = den(out.outs.get(0, mk("bottom")), memo)
            want = mk("gsmul", ps[0], ps[1])
            want_s = "*self := " + Tm.show(want)
            got = post
            ok = post is want
        else:
            return None
    elif kind == "sum":
        want_s = "FOLD(iter, G_ZERO, acc + item)"
        f = got
        ok = False
        if f.op == "proj" and f.args[0].op == "fold":
            fo = f.args[0]
            it, item, accs, inits, nexts = fo.args
            init_ok = den(inits[0], memo) is mk("gzero")
            nx = den(nexts[0], memo)
            next_ok = nx is mk("gadd", accs[0], item) or nx is mk("gadd", item, accs[0])
            ok = it is ps[0] and init_ok and next_ok
    for u in out.unmodelled:
        rep.unmodelled.append("%s %s: %s" % (cfg.name, norm_path(path), u))
    if out.unmodelled and ok:
        ok = False
        want_s += " [and no unmodelled construct on the path: %s]" % "; ".join(out.unmodelled[:2])
    rep.ob(key, ok, "%s impl must reduce to %s on its own operands; got %s" % (tr.split("::")[-1], want_s, Tm.show(got, maxdepth=6)),
           where=cfg.where(path), nontrivial=True,
           sample={"obligation": key, "expected": want_s, "got": Tm.show(got, maxdepth=5)})
    return ok


def check_select(rep, cfg):
    """constant-time selection of the minimal backend's Element (used by the constant-time ladder): every coordinate of the result
    must be ITE(choice, b.k, a.k) of the SAME coordinate k of the two operands - a mixed-up coordinate yields a value that still
    compares equal (PartialEq reads x, y only) but is no longer a point (T*Z != X*Y) and encodes differently"""
    n = 0
    for path, b in sorted(cfg.prog.bodies.items()):
        if b.get("impl_trait_def") != "subtle::ConditionallySelectable" or not path.endswith("::conditional_select"):
            continue
        st = b.get("impl_self", "")
        if not (st.endswith("element::Element") or st.endswith("element::AffinePoint") or st.endswith("projective::Element")) or "r1cs" in st:
            continue
        n += 1
        out = cfg.run(path)
        names = [p_.get("name") for p_ in b["params"]]
        A_, B_, ch = (mk("param", x) for x in names[:3])
        v = out.value
        ok = v.op == "struct" and not out.unmodelled
        bad = []
        if ok:
            for k, t in zip(v.args[1], v.args[2:]):
                want = Tm.ite(mk("choice_true", ch), field(B_, k), field(A_, k))
                if t is not want:
                    bad.append("%s = %s" % (k, Tm.show(t, maxdepth=4)))
            adt = cfg.prog.adts.get(st) if hasattr(cfg.prog, "adts") else None
            if len(v.args[1]) < 4 and "min_curve" in st:
                bad.append("only %d coordinates selected" % len(v.args[1]))
        rep.ob("SELECT/%s/%s" % (cfg.name, norm_path(path)), ok and not bad,
               "conditional_select(a, b, choice) must select every coordinate k as ITE(choice, b.k, a.k); %s" % ("; ".join(bad) if bad else Tm.show(v, maxdepth=3)),
               where=cfg.where(path), sample={"obligation": "SELECT/%s/%s" % (cfg.name, norm_path(path)), "coordinates": list(v.args[1]) if ok else []})
    return n


IDENTITY_FORMS = {
    # (trait def, method) -> what the form must denote; all are "the same element in another representation"
    ("ark_ec::CurveGroup", "into_affine"): "self",
    ("ark_ec::AffineRepr", "clear_cofactor"): "self",            # the declared cofactor is 1: clearing it is the identity map
    ("ark_ec::AffineRepr", "mul_by_cofactor_to_group"): "self",
    ("ark_ec::AffineRepr", "into_group"): "self",
    ("ark_ec::AffineRepr", "mul_by_cofactor"): "self",
    ("ark_ec::AffineRepr", "generator"): "generator",
    ("ark_ec::Group", "generator"): "generator",
    ("ark_ec::Group", "double"): "double",
    ("ark_ec::AffineRepr", "mul_by_cofactor_inv"): "self",       # COFACTOR_INV = 1
}

# every function the crate defines in its impls of the arkworks group traits, and the rule that covers it: a method that is not listed is crate
# code behind a public (generic-code) entry point that no rule interprets
NATIVE_TRAIT_METHODS = {
    "ark_ec::Group": {"generator": "FWD identity forms", "double": "FWD identity forms", "double_in_place": "C04 FWD", "mul_bigint": "C05 FWD", "mul_bits_be": "C05 FWD"},
    "ark_ec::CurveGroup": {"normalize_batch": "C06 PROV / C03 CONV", "into_affine": "FWD identity forms"},
    "ark_ec::AffineRepr": {"xy": "C08 IDENT (accessor under is_zero)", "x": "accessor", "y": "accessor", "zero": "C08 IDENT", "is_zero": "C08 IDENT", "generator": "FWD identity forms",
                           "from_random_bytes": "C06 PROV", "mul_bigint": "C05 FWD", "clear_cofactor": "FWD identity forms", "mul_by_cofactor_to_group": "FWD identity forms",
                           "into_group": "FWD identity forms", "mul_by_cofactor": "FWD identity forms", "mul_by_cofactor_inv": "FWD identity forms"},
    "ark_ec::ScalarMul": {"batch_convert_to_mul_base": "C06 PROV / C03 CONV"},
    "ark_ec::VariableBaseMSM": {},
    "ark_ff::Zero": {"zero": "C08 IDENT", "is_zero": "C08 IDENT"},
}


def check_trait_method_cover(rep, cfg):
    n = 0
    for im in cfg.facts["impls"]:
        td = im.get("trait_def")
        if td not in NATIVE_TRAIT_METHODS or sort_of(im.get("self", ""))[0] not in POINT_SORTS or "r1cs" in im.get("self", ""):
            continue
        for it in im["items"]:
            if it["kind"] != "Fn":
                continue
            n += 1
            how = NATIVE_TRAIT_METHODS[td].get(it["name"])
            rep.ob("COVER/%s/<%s as %s>::%s" % (cfg.name, im["self"].split("::")[-1], td.split("::")[-1], it["name"]), how is not None,
                   ("covered by: %s" % how) if how else
                   "the crate defines %s::%s for %s, but no rule of the group-law checks interprets this method (an override of an arkworks default, or a new "
                   "trait method): verify it and add a rule, or drop it" % (td, it["name"], im["self"].split("::")[-1]),
                   where=im.get("sp"), nontrivial=False)
    return n


# provided methods of core / subtle traits whose documented default IS their specification: an override is judged against it
CORE_PROVIDED = {
    ("subtle::ConditionallySelectable", "conditional_assign"): "assign",
    ("subtle::ConditionallySelectable", "conditional_swap"): "swap",
    ("core::cmp::PartialEq", "ne"): "ne",
    ("core::clone::Clone", "clone_from"): "clone_from",
}
CORE_IGNORED = {("core::cmp::Eq", "assert_fields_are_eq"), ("core::cmp::Eq", "assert_receiver_is_total_eq")}      # derive artefacts without behaviour


def _leaves(t, prefix=""):
    if t.op == "fp_new_montgomery":
        return _leaves(t.args[1], prefix + ".0")      # ark_ff::Fp(BigInt, PhantomData) built from its Montgomery limbs
    if t.op == "struct":
        out = {}
        for k, v in zip(t.args[1], t.args[2:]):
            out.update(_leaves(v, prefix + "." + str(k)))
        return out
    if t.op == "array":
        out = {}
        for i, v in enumerate(t.args):
            out.update(_leaves(v, prefix + "[%d]" % i))
        return out
    return {prefix: t}


def check_core_overrides(rep, cfg, sorts, runner=None):
    """every override, on one of the given sorts of crate types, of a PROVIDED method of a core / subtle trait: generic code (and subtle's own
    defaults, e.g. conditional_swap through conditional_assign) reach it instead of the default, so it has to do what the default does"""
    n = 0
    runner = runner or (lambda path: cfg.run(path))
    for im in cfg.facts["impls"]:
        td = im.get("trait_def") or ""
        if not (td.startswith("core::") or td.startswith("subtle::")) or sort_of(im.get("self", ""))[0] not in sorts or "r1cs" in im.get("self", ""):
            continue
        items = {it["name"]: it["path"] for it in im["items"] if it["kind"] == "Fn"}
        for name in im.get("overridden", []):
            if (td, name) in CORE_IGNORED:
                continue
            n += 1
            key = "OVERRIDE/%s/<%s as %s>::%s" % (cfg.name, im["self"].split("::")[-1], td.split("::")[-1], name)
            kind = CORE_PROVIDED.get((td, name))
            path = items.get(name)
            if kind is None or path not in cfg.prog.bodies:
                rep.ob(key, False, "%s overrides the provided method %s::%s; the trait's default is this method's specification and no rule here can compare this "
                       "override with it (review it and add a rule, or drop the override)" % (im["self"].split("::")[-1], td, name), where=im.get("sp"))
                continue
            out = runner(path)
            b = cfg.prog.bodies[path]
            names = [p_.get("name") for p_ in b["params"]]
            P_ = [mk("param", x) for x in names]
            ok, why = False, ""
            if kind in ("assign", "swap"):
                sel = items.get("conditional_select")
                if sel is None or sel not in cfg.prog.bodies:
                    why = "no conditional_select to compare with"
                else:
                    so = runner(sel)
                    sn = [mk("param", p_.get("name")) for p_ in cfg.prog.bodies[sel]["params"]]
                    want0 = Tm.subst(so.value, {sn[0]: P_[0], sn[1]: P_[1], sn[2]: P_[2]})
                    got0 = out.outs.get(0)
                    pairs = [(got0, want0, "self")]
                    if kind == "swap":
                        pairs.append((out.outs.get(1), Tm.subst(so.value, {sn[0]: P_[1], sn[1]: P_[0], sn[2]: P_[2]}), "other"))
                    bad = []
                    for got, want, who in pairs:
                        if got is None:
                            bad.append("%s is not written" % who)
                            continue
                        gl, wl = _leaves(got), _leaves(want)
                        if gl.keys() != wl.keys():
                            # an in-place update of an opaque parameter: read the components the selection defines
                            gl = {k: _project(got, k) for k in wl}
                        for k in wl:
                            if gl[k] is not wl[k]:
                                bad.append("%s%s = %s, conditional_select gives %s" % (who, k, Tm.show(gl[k], maxdepth=4), Tm.show(wl[k], maxdepth=4)))
                    ok = not bad and not out.unmodelled and not so.unmodelled
                    why = "; ".join(bad[:3]) or "; ".join((out.unmodelled + so.unmodelled)[:2])
            elif kind == "ne":
                eqp = items.get("eq")
                if eqp in cfg.prog.bodies:
                    eo = runner(eqp)
                    en = [mk("param", p_.get("name")) for p_ in cfg.prog.bodies[eqp]["params"]]
                    want = Tm.not_(Tm.subst(eo.value, {en[0]: P_[0], en[1]: P_[1]}))
                    ok = out.value is want and not out.unmodelled
                    why = "ne = %s" % Tm.show(out.value, maxdepth=5)
            elif kind == "clone_from":
                got0 = out.outs.get(0)
                ok = got0 is P_[1] and not out.unmodelled
                why = "self after clone_from = %s" % (Tm.show(got0, maxdepth=4) if got0 is not None else None)
            rep.ob(key, ok, "an override of %s::%s must do what the trait's default does (%s); %s" % (
                td, name, {"assign": "*self = conditional_select(self, other, choice)", "swap": "(a, b) = (select(a, b, c), select(b, a, c))",
                           "ne": "!eq", "clone_from": "*self = source.clone()"}[kind], why or "ok"), where=cfg.where(path))
    return n


def _project(t, key):
    """component `.a.b[2]` of a term"""
    import re as _re
    for m in _re.finditer(r"\.([A-Za-z0-9_]+)|\[(\d+)\]", key):
        t = field(t, m.group(1)) if m.group(1) is not None else Tm.index(t, lit(int(m.group(2))))
    return t


def check_identity_forms(rep, cfg, prop):
    """conversions / cofactor forms of the arkworks traits: each must denote its own operand (or the generator constant)"""
    from . import consts as K
    zeta_c = cfg.prog.consts.get("ark_curve::constants::ZETA")
    gen = K.decaf_decode_int(K.ENC_GENERATOR, K.felt(zeta_c["value"]["val"], "fq")[1]) if zeta_c else None
    n = 0
    for path, b in sorted(cfg.prog.bodies.items()):
        tr = b.get("impl_trait_def")
        name = path.split("::")[-1]
        what = IDENTITY_FORMS.get((tr, name))
        if what is None or sort_of(b.get("impl_self", ""))[0] not in POINT_SORTS:
            continue
        n += 1
        out = cfg.run(path)
        got = den(out.value)
        key = "FWD/%s/%s" % (cfg.name, norm_path(path))
        if what == "double":
            want = mk("gdbl", operand_terms(b)[0])
            alt = mk("gadd", operand_terms(b)[0], operand_terms(b)[0])
            ok = (got is want or got is alt) and not out.unmodelled
            rep.ob(key, ok, "%s::%s must denote G_DBL(self); got %s" % (tr, name, Tm.show(got, maxdepth=5)), where=cfg.where(path))
        elif what == "self":
            want = operand_terms(b)[0]
            ok = got is want and not out.unmodelled
            rep.ob(key, ok, "%s::%s must denote its own operand (a change of representation only); got %s" % (tr, name, Tm.show(got, maxdepth=5)), where=cfg.where(path))
        else:
            ok = False
            why = Tm.show(got, maxdepth=4)
            if got.op == "struct" and got.args[0] == "TEProj":
                co = dict(zip(got.args[1], got.args[2:]))
                if all(isinstance(v, Tm.T) and v.op == "felem" for v in co.values()) and co["z"].args[1] != 0 and gen is not None:
                    zi = pow(co["z"].args[1], -1, K.Q)
                    x, y = co["x"].args[1] * zi % K.Q, co["y"].args[1] * zi % K.Q
                    ok = (x, y) == gen and co["t"].args[1] * co["z"].args[1] % K.Q == co["x"].args[1] * co["y"].args[1] % K.Q
                    why = "affine (%#x.., %#x..) vs decode(8)" % (x >> 200, y >> 200)
            rep.ob(key, ok and not out.unmodelled, "%s::%s must return the generator constant decode(8): %s" % (tr, name, why), where=cfg.where(path))
    return n


# hooks of the arkworks curve-config traits: arkworks' generic Projective / Affine code calls them on every operation of the inner point, so an
# override in the crate is crate code on the path of every group operation that C04-C06 otherwise attribute to trusted arkworks code.
CONFIG_HOOKS = {
    # (trait, method) -> (owning properties, how it is covered)
    ("ark_ec::twisted_edwards::TECurveConfig", "mul_by_a"): (("C04",), "checked: must denote a * elem with a = COEFF_A (rule FWD/mul_by_a of C04)"),
    ("ark_ec::twisted_edwards::TECurveConfig", "is_in_correct_subgroup_assuming_on_curve"):
        (("C06",), "constant `true` by design: validity of decaf377 elements is established by decoding (PROV), never by this predicate - so no "
                   "construction site may rely on arkworks' `Valid::check` / checked deserialisation of the inner point (PROV treats those as raw)"),
}
HOOK_OWNERS = {"mul_affine": ("C05",), "mul_projective": ("C05",), "msm": ("C05",), "clear_cofactor": ("C04", "C06"), "mul_by_a": ("C04",),
               "is_in_correct_subgroup_assuming_on_curve": ("C06",), "serialize_with_mode": ("C03",), "deserialize_with_mode": ("C02", "C06"),
               "serialized_size": ("C03",), "cofactor_is_one": ("C05", "C06")}


def config_hooks(rep, cfg, pid):
    """every method the crate's curve configuration overrides must be one the rules account for"""
    n = 0
    for im in cfg.facts["impls"]:
        st = im.get("self", "")
        td = im.get("trait_def", "")
        if not st.endswith("Decaf377EdwardsConfig") or not td.startswith("ark_ec::"):
            continue
        for it in im["items"]:
            if it["kind"] != "Fn":
                continue
            owners, how = CONFIG_HOOKS.get((td, it["name"]), (None, None))
            if owners is None:
                owners = HOOK_OWNERS.get(it["name"], ("C04", "C05", "C06"))
                if pid not in owners:
                    continue
                n += 1
                rep.ob("HOOK/%s/%s::%s" % (cfg.name, td.split("::")[-1], it["name"]), False,
                       "the curve configuration overrides arkworks' `%s` hook, which arkworks' generic point code calls on the path of the group operations "
                       "this property is about; no rule of this check analyses an override of it (the operations were attributed to trusted arkworks "
                       "code) - verify it by hand and table it with a reason, or drop the override" % it["name"], where=im.get("sp"), nontrivial=False)
            elif pid in owners:
                n += 1
                rep.ob("HOOK/%s/%s::%s" % (cfg.name, td.split("::")[-1], it["name"]), True, how, nontrivial=False)
    return n
