"""WIT: compile-fail witnesses (with compiling twins) - filled in by witness/ harness."""


def check(rep, pid, tier):
    return
