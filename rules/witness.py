"""WIT: compile-fail witnesses (with compiling twins) run through rustdoc on nightly (error codes are checked there)."""
import os, re, subprocess

VERIF = os.path.dirname(os.path.dirname(os.path.abspath(__file__)))


def check(rep, pid, tier):
    if tier != "thorough":
        rep.info("WIT compile-fail witnesses run in the thorough tier only (rustdoc build of a downstream crate)")
        return
    wdir = os.path.join(VERIF, "witness")
    env = dict(os.environ, CARGO_NET_OFFLINE="true", CARGO_TARGET_DIR=os.path.join(VERIF, ".cache", "witness-target"))
    r = subprocess.run(["cargo", "+nightly", "test", "--doc", "--offline"], cwd=wdir, env=env, stdout=subprocess.PIPE, stderr=subprocess.STDOUT, text=True)
    res = re.findall(r"test src/lib\.rs - (W\d+) \(line \d+\)( - compile fail)? \.\.\. (\w+)", r.stdout)
    if not res:
        rep.fail_closed("WIT: rustdoc witnesses could not be run: " + r.stdout[-400:])
        return
    by = {}
    for w, cf, verdict in res:
        by.setdefault(w, []).append(("compile_fail" if cf else "twin", verdict))
    for w, lst in sorted(by.items()):
        ok = len(lst) == 2 and all(v == "ok" for _, v in lst) and {k for k, _ in lst} == {"compile_fail", "twin"}
        rep.ob("WIT/%s" % w, ok, "witness %s: the offending program must fail to compile with the stated error code and its twin must compile: %s" % (w, lst), nontrivial=True,
               sample={"obligation": "WIT/" + w, "results": lst})
    rep.floor("compile_fail_witnesses", len(by), 4)
    rep.rules.append("WIT")
