"""Decoding of compiler-evaluated constants (value trees) into Python integers,
and the number theory needed to recompute what each constant should be."""
import re

# ---- specification anchors (public parameters, not copied from /repo) -----------------------
X_BLS = 0x8508C00000000001                      # BLS12-377 curve parameter x
Q = X_BLS ** 4 - X_BLS ** 2 + 1                 # BLS12-377 scalar field = decaf377 base field Fq
P = (X_BLS - 1) ** 2 * Q // 3 + X_BLS           # BLS12-377 base field Fp
R = 2111115437357092606062206234695386632838870926408408195193685246394721360383  # decaf377 group order (spec)
A_COEFF = -1
D_COEFF = 3021
ENC_GENERATOR = 8                               # spec: the generator is decode(8)

MODULI = {"fq": Q, "fr": R, "fp": P}


def is_prime(n):
    if n < 2:
        return False
    small = [2, 3, 5, 7, 11, 13, 17, 19, 23, 29, 31, 37, 41, 43, 47, 53, 59, 61, 67, 71]
    for s in small:
        if n % s == 0:
            return n == s
    d, s = n - 1, 0
    while d % 2 == 0:
        d //= 2
        s += 1
    for a in small:
        x = pow(a, d, n)
        if x in (1, n - 1):
            continue
        for _ in range(s - 1):
            x = x * x % n
            if x == n - 1:
                break
        else:
            return False
    return True


def two_adicity(n):
    s = 0
    while n % 2 == 0:
        n //= 2
        s += 1
    return s, n


def small_prime_factors(n, bound=1 << 20):
    fs = []
    p = 2
    while p < bound and p * p <= n:
        if n % p == 0:
            fs.append(p)
            while n % p == 0:
                n //= p
        p += 1 if p == 2 else 2
    return fs, n


def pollard_rho(n):
    """a non-trivial factor of composite n (deterministic parameter sweep; used on <= 128-bit cofactors only)"""
    import math
    if n % 2 == 0:
        return 2
    for c in range(1, 200):
        x = y = 2
        d = 1
        f = lambda v: (v * v + c) % n
        while d == 1:
            x = f(x)
            y = f(f(y))
            d = math.gcd(abs(x - y), n)
        if d != n:
            return d
    return None


def factorize(n, limit_bits=140):
    """complete prime factorisation of n when every composite cofactor met is below limit_bits; else None"""
    fs, rest = small_prime_factors(n, 1 << 16)
    out = set(fs)
    stack = [rest] if rest > 1 else []
    while stack:
        m = stack.pop()
        if m == 1:
            continue
        if is_prime(m):
            out.add(m)
            continue
        if m.bit_length() > limit_bits:
            return None
        d = pollard_rho(m)
        if d is None:
            return None
        stack += [d, m // d]
    return sorted(out)


def legendre(a, p):
    a %= p
    if a == 0:
        return 0
    return 1 if pow(a, (p - 1) // 2, p) == 1 else -1


def sqrt_mod(a, p):
    """Tonelli-Shanks; returns a root or None"""
    a %= p
    if a == 0:
        return 0
    if legendre(a, p) != 1:
        return None
    s, t = two_adicity(p - 1)
    z = 2
    while legendre(z, p) != -1:
        z += 1
    m, c, tt, r = s, pow(z, t, p), pow(a, t, p), pow(a, (t + 1) // 2, p)
    while tt != 1:
        i, x = 0, tt
        while x != 1:
            x = x * x % p
            i += 1
        b = pow(c, 1 << (m - i - 1), p)
        m, c = i, b * b % p
        tt, r = tt * c % p, r * b % p
    return r


# ---- value-tree access ------------------------------------------------------------------------

def vint(v):
    return int(v["int"])


def find_int_array(v):
    """the unique array-of-integers inside a (newtype-nested) value"""
    if isinstance(v, dict):
        if "arr" in v and all(isinstance(x, dict) and "int" in x for x in v["arr"]):
            bits = 64
            m = re.search(r"\[u(\d+)", v.get("ty", ""))
            if m:
                bits = int(m.group(1))
            return [vint(x) for x in v["arr"]], bits
        if "fields" in v:
            for k, f in v["fields"].items():
                r = find_int_array(f)
                if r is not None:
                    return r
    return None


def limbs_to_int(limbs, bits):
    n = 0
    for i, l in enumerate(limbs):
        n |= l << (bits * i)
    return n


def field_of_type(ty):
    """which prime field a type string denotes: 'fq' | 'fr' | 'fp' | None"""
    t = ty.replace(" ", "")
    if re.search(r"fields::fq::", t):
        return "fq"
    if re.search(r"fields::fr::", t):
        return "fr"
    if re.search(r"fields::fp::", t):
        return "fp"
    # arkworks' own: ark_ed_on_bls12_377::Fq == ark_bls12_377::Fr (config ark_bls12_377::FrConfig)
    if "ark_bls12_377::FrConfig" in t:
        return "fq"
    if "ark_ed_on_bls12_377::FrConfig" in t:
        return "fr"
    if "ark_bls12_377::FqConfig" in t:
        return "fp"
    return None


def mont_r(field):
    return 1 << (384 if field == "fp" else 256)


def felt(v, field=None):
    """canonical integer of a field-element value tree (Montgomery form undone). returns (field, int, raw)"""
    f = field or field_of_type(v.get("ty", ""))
    arr = find_int_array(v)
    if f is None or arr is None:
        raise ValueError("not a field element: %s" % str(v)[:200])
    limbs, bits = arr
    raw = limbs_to_int(limbs, bits)
    p = MODULI[f]
    return f, raw * pow(mont_r(f), -1, p) % p, raw


def bigint(v):
    arr = find_int_array(v)
    if arr is None:
        raise ValueError("not an integer array: %s" % str(v)[:200])
    return limbs_to_int(*arr)


def fp2(v):
    fs = v["fields"]
    return (felt(fs["c0"])[1], felt(fs["c1"])[1])


def fp6(v):
    fs = v["fields"]
    return (fp2(fs["c0"]), fp2(fs["c1"]), fp2(fs["c2"]))


# ---- Fp2 / Fp6 arithmetic over P with u^2 = beta -----------------------------------------------

class Fp2:
    def __init__(self, p, beta):
        self.p, self.beta = p, beta % p

    def mul(self, a, b):
        p = self.p
        return ((a[0] * b[0] + self.beta * a[1] * b[1]) % p, (a[0] * b[1] + a[1] * b[0]) % p)

    def add(self, a, b):
        return ((a[0] + b[0]) % self.p, (a[1] + b[1]) % self.p)

    def sub(self, a, b):
        return ((a[0] - b[0]) % self.p, (a[1] - b[1]) % self.p)

    def sq(self, a):
        return self.mul(a, a)

    def pow(self, a, e):
        r = (1, 0)
        while e:
            if e & 1:
                r = self.mul(r, a)
            a = self.mul(a, a)
            e >>= 1
        return r

    def inv(self, a):
        p = self.p
        n = (a[0] * a[0] - self.beta * a[1] * a[1]) % p
        ni = pow(n, -1, p)
        return (a[0] * ni % p, (-a[1]) * ni % p)


# ---- generic elliptic curve arithmetic (affine, short Weierstrass y^2 = x^3 + b over a field object)

class PrimeF:
    def __init__(self, p):
        self.p = p

    def mul(self, a, b):
        return a * b % self.p

    def add(self, a, b):
        return (a + b) % self.p

    def sub(self, a, b):
        return (a - b) % self.p

    def sq(self, a):
        return a * a % self.p

    def inv(self, a):
        return pow(a, -1, self.p)


def sw_add(F, P1, P2, zero):
    """affine addition on y^2 = x^3 + b (a = 0); None is the point at infinity"""
    if P1 is None:
        return P2
    if P2 is None:
        return P1
    x1, y1 = P1
    x2, y2 = P2
    if x1 == x2:
        if F.add(y1, y2) == zero:
            return None
        three = F.add(F.add(F.sq(x1), F.sq(x1)), F.sq(x1))
        lam = F.mul(three, F.inv(F.add(y1, y1)))
    else:
        lam = F.mul(F.sub(y2, y1), F.inv(F.sub(x2, x1)))
    x3 = F.sub(F.sub(F.sq(lam), x1), x2)
    y3 = F.sub(F.mul(lam, F.sub(x1, x3)), y1)
    return (x3, y3)


def sw_mul(F, k, Pt, zero):
    acc = None
    while k:
        if k & 1:
            acc = sw_add(F, acc, Pt, zero)
        Pt = sw_add(F, Pt, Pt, zero)
        k >>= 1
    return acc


# ---- twisted Edwards a x^2 + y^2 = 1 + d x^2 y^2 over Fq -----------------------------------------

def te_add(P1, P2, a=A_COEFF, d=D_COEFF, q=Q):
    x1, y1 = P1
    x2, y2 = P2
    k = d * x1 * x2 * y1 * y2 % q
    x3 = (x1 * y2 + y1 * x2) * pow(1 + k, -1, q) % q
    y3 = (y1 * y2 - a * x1 * x2) * pow(1 - k, -1, q) % q
    return (x3, y3)


def te_mul(k, Pt, **kw):
    acc = (0, 1)
    while k:
        if k & 1:
            acc = te_add(acc, Pt, **kw)
        Pt = te_add(Pt, Pt, **kw)
        k >>= 1
    return acc


def te_on_curve(Pt, a=A_COEFF, d=D_COEFF, q=Q):
    x, y = Pt
    return (a * x * x + y * y - 1 - d * x * x * y * y) % q == 0


def isqrt_spec(num, den, zeta, q=Q):
    """the four-case contract of sqrt_ratio_zeta, computed on integers (used on constants only)"""
    num %= q
    den %= q
    if num == 0:
        return True, 0
    if den == 0:
        return False, 0
    ratio = num * pow(den, -1, q) % q
    r = sqrt_mod(ratio, q)
    if r is not None:
        return True, r
    r = sqrt_mod(zeta * ratio % q, q)
    return False, r


def decaf_decode_int(s, zeta, q=Q, a=A_COEFF, d=D_COEFF):
    """specification decoder on an integer (used on the constant 8 only). returns affine (x,y) or None"""
    if s >= q or s & 1:
        return None
    ss = s * s % q
    u1 = (1 - ss) % q
    u2 = (u1 * u1 - 4 * d * ss) % q
    sq, v = isqrt_spec(1, u2 * u1 * u1, zeta, q)
    if not sq:
        return None
    if (2 * s * u1 * v % q) & 1:
        v = (-v) % q
    x = 2 * s * u1 * v * v * u2 % q
    y = (1 + ss) * v * u1 % q
    return (x, y)
