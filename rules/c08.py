"""C08 — equality, hashing and identity tests are mutually coherent.

TERM: PartialEq is X1*Y2 == Y1*X2 on the operands' own coordinates (canonical polynomial condition).
OBS [S]: Hash observes the element only through bytes(encode(self)) (so equal elements hash equally).
IDENT [S]: every identity predicate (is_identity, Zero::is_zero) normalises to X == 0 and every identity value
(IDENTITY, Default, Zero::zero) denotes the neutral element.
"""
import re
from . import terms as Tm, consts as K
from .terms import mk, lit, field, TRUE, FALSE
from . import curve as C
from .curve import Cfg
from .common import norm_path
from . import c03, c17
from . import groupops as G

POINTS = ("ark_curve::element::projective::Element", "ark_curve::element::affine::AffinePoint", "min_curve::element::Element")


def xy_of(cfg, p, st):
    base = field(p, "inner") if st.startswith("ark_curve") else p
    return field(base, "x"), field(base, "y")


def check_eq(rep, cfg):
    n = 0
    for path, b in sorted(cfg.prog.bodies.items()):
        if b.get("impl_trait_def") != "core::cmp::PartialEq" or b.get("impl_self") not in POINTS or not path.endswith("::eq"):
            continue
        n += 1
        out = cfg.run(path)
        N = cfg.norm
        names = [p.get("name") for p in b["params"]]
        A_, B_ = mk("param", names[0]), mk("param", names[1])
        x1, y1 = xy_of(cfg, A_, b["impl_self"])
        x2, y2 = xy_of(cfg, B_, b["impl_self"])
        want = Tm.eq(mk("mul", x1, y2), mk("mul", y1, x2))
        ok = N.cond(out.value) == N.cond(want) and not out.unmodelled
        rep.ob("TERM/%s/%s" % (cfg.name, norm_path(path)), ok,
               "equality must be the Decaf test X1*Y2 == Y1*X2 on the two operands' own coordinates (and nothing else); got %s" % Tm.show(out.value, maxdepth=6),
               where=cfg.where(path), sample={"obligation": "TERM/%s/%s" % (cfg.name, norm_path(path)), "term": Tm.show(out.value, maxdepth=5)})
    return n


def check_hash(rep, cfg):
    loc = c03.compress_summaries(cfg, rep)
    n = 0
    for path, b in sorted(cfg.prog.bodies.items()):
        if b.get("impl_trait_def") != "core::hash::Hash" or b.get("impl_self") not in POINTS or not path.endswith("::hash"):
            continue
        n += 1
        out = cfg.run(path, local=loc)
        param = mk("param", "self")

        def shield(x):
            return x.op in ("enc_bytes", "enc_field") and c03.same_element(x.args[0], param)
        writes = [mk("tuple", *[a for a in args if isinstance(a, Tm.T)]) for pc, kind, args, site in out.effects if kind == "hash_write"]
        bad = []
        for w in writes:
            bad += c03.raw_uses(w, param, shield)
        shielded = sum(1 for w in writes if Tm.contains(w, shield))
        rep.ob("OBS/%s/%s" % (cfg.name, norm_path(path)), not bad and shielded >= 1 and not out.unmodelled,
               "Hash must feed the hasher only a function of the group element (bytes(encode(self))): Eq identifies both representatives of a coset; "
               "raw observations: %s; writes through the encoder: %d" % ([Tm.show(x, maxdepth=4) if x is not None else "self" for x in bad][:3], shielded),
               where=cfg.where(path), sample={"obligation": "OBS/%s/%s" % (cfg.name, norm_path(path)), "hash_writes": [Tm.show(w, maxdepth=4) for w in writes]})
    return n


def check_identity(rep, cfg):
    N = cfg.norm
    n = 0
    for path, b in sorted(cfg.prog.bodies.items()):
        name = path.split("::")[-1]
        st = b.get("impl_self", "")
        if st not in POINTS:
            continue
        tr = b.get("impl_trait_def", "")
        if (name == "is_identity" and not tr) or (name == "is_zero" and tr in ("ark_ff::Zero", "ark_ec::AffineRepr")):
            n += 1
            out = cfg.run(path)
            x, y = xy_of(cfg, mk("param", "self"), st)
            want = Tm.eq(x, mk("felem", "fq", 0))
            ok = N.cond(out.value) == N.cond(want) and not out.unmodelled
            rep.ob("IDENT/%s/%s" % (cfg.name, norm_path(path)), ok,
                   "identity predicate must be exactly X == 0 (true for both representatives of the identity coset, false otherwise); got %s" % Tm.show(out.value, maxdepth=6),
                   where=cfg.where(path), sample={"obligation": "IDENT/%s/%s" % (cfg.name, norm_path(path)), "term": Tm.show(out.value, maxdepth=4)})
        if (name == "default" and tr == "core::default::Default") or (name == "zero" and tr in ("ark_ff::Zero", "ark_ec::AffineRepr")):
            n += 1
            out = cfg.run(path)
            got = G.den(out.value)
            rep.ob("IDENT/%s/%s" % (cfg.name, norm_path(path)), got is mk("gzero") and not out.unmodelled,
                   "%s must denote the neutral element; got %s" % (name, Tm.show(got, maxdepth=5)), where=cfg.where(path))
    return n


def check_inherited_predicates(rep, cfg):
    """identity predicates a point type gets from an EXTERNAL trait's default method (not overridden in the crate): the default body,
    applied to the crate's own required methods, must still be the coset test X == 0.
    arkworks: AffineRepr::is_zero(&self) = self.xy().is_none();  twisted_edwards::Affine::xy() = None iff (x, y) == (0, 1)."""
    N = cfg.norm
    n = 0
    for im in cfg.facts["impls"]:
        st = im.get("self", "")
        if st not in POINTS or im.get("trait_def") != "ark_ec::AffineRepr":
            continue
        if "is_zero" not in (im.get("inherited") or []):
            continue            # overridden: covered by check_identity
        n += 1
        xy_path = next((it["path"] for it in im["items"] if it["name"] == "xy"), None)
        key = "IDENT/%s/<%s as AffineRepr>::is_zero(inherited default)" % (cfg.name, st.split("::")[-1])
        if xy_path is None or cfg.prog.body(xy_path) is None:
            rep.ob(key, False, "cannot find the crate's xy() that the inherited default is_zero() = xy().is_none() is built on")
            continue
        out = cfg.run(xy_path)
        x, y = xy_of(cfg, mk("param", "self"), st)
        v = out.value
        if v.op == "te_xy":       # arkworks twisted-Edwards affine accessor: None exactly at the point (0, 1)
            got = Tm.and_(Tm.eq(field(v.args[0], "x"), mk("felem", "fq", 0)), Tm.eq(field(v.args[0], "y"), mk("felem", "fq", 1)))
        else:
            got = Tm.is_variant(v, "None")
        want = Tm.eq(x, mk("felem", "fq", 0))
        ok = N.cond(got) == N.cond(want) and not out.unmodelled
        rep.ob(key, ok,
               "the arkworks zero test of affine points is the trait default `self.xy().is_none()`; with this xy() it is %s, i.e. true for the "
               "representative (0, 1) only, while == zero() / is_identity hold for every representative of the identity coset (X == 0): "
               "override is_zero (or make xy() return None on the whole coset)" % Tm.show(got, maxdepth=6),
               where=im.get("sp"), sample={"obligation": key, "term": Tm.show(got, maxdepth=5)})
    return n


def run(rep, facts, tier):
    rep.explanation = (
        "TERM: the PartialEq impls of Element/AffinePoint are interpreted and their condition, as a canonical polynomial predicate, must be "
        "X1*Y2 - Y1*X2 = 0 on the operands' own coordinates. OBS: the Hash impls may observe self only through bytes(encode(self)) - an "
        "observation-class (shield) dataflow rule over the hasher writes. IDENT: identity predicates normalise to X == 0; identity values denote "
        "G_ZERO; the identity constants are (0:1:1:0).")
    rep.rules += ["TERM", "OBS", "IDENT", "CONST", "OVERRIDE (provided methods of core / subtle traits overridden for Element / AffinePoint: ne, hash_slice, conditional_assign / swap, clone_from)"]
    rep.trusted += ["rustc trait resolution", "summary table"]
    rep.assumptions += ["'equal iff same encoding' beyond conformance of eq and encode is Decaf section 4.5 (assumed)",
                        "AffineRepr::xy / x / y expose raw coordinates by design and are accessors, not identity predicates"]
    counts = {}
    for name, f in facts.items():
        if name == "R":
            continue
        cfg = Cfg(f)
        counts[name] = {"eq": check_eq(rep, cfg), "hash": check_hash(rep, cfg), "identity": check_identity(rep, cfg) + check_inherited_predicates(rep, cfg)}
        c17.curve_constants(rep, f, name)
        counts[name]["core_overrides"] = G.check_core_overrides(rep, cfg, G.POINT_SORTS)
    rep.analysed["observers"] = counts
    if "A" in counts:
        rep.floor("eq_impls_A", counts["A"]["eq"], 2)
        rep.floor("hash_impls_A", counts["A"]["hash"], 2)
        rep.floor("identity_items_A", counts["A"]["identity"], 5)
    if "M" in counts:
        rep.floor("eq_impls_M", counts["M"]["eq"], 1)
