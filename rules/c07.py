"""C07 — hash-to-group equals the specified Elligator 2 map (necessary part: conformance to the published optimised routine).

TERM: the one-input map of each build, as a canonical polynomial function of r0 (ISQRT uninterpreted), equals the
specification's optimised map projectively (X1*Z2 = X2*Z1, Y1*Z2 = Y2*Z1, and T*Z = X*Y).  FWD: encode_to_curve is
the map, hash_to_curve is the group sum of two maps.  CONST: zeta non-square, a-2d and d-a non-zero.
"""
from . import terms as Tm, consts as K
from .terms import mk, lit, field, TRUE, FALSE
from . import curve as C
from .curve import Cfg, pkey
from .common import norm_path
from . import groupops as G
from spec import decaf_spec as SP


def zeta_of(cfg):
    c = cfg.prog.consts.get("ark_curve::constants::ZETA") or cfg.prog.consts.get("min_curve::constants::ZETA")
    return K.felt(c["value"]["val"], "fq")[1] if c else None


def check_map(rep, cfg):
    p = cfg.p_elligator(rep)
    if p is None:
        return
    out = cfg.run(p)
    N = cfg.norm
    co = C.coords(out.value)
    key = "TERM/%s/elligator_map" % cfg.name
    if co is None:
        rep.ob(key + ":shape", False, "elligator_map does not return an element built from coordinates: %s" % Tm.show(out.value, maxdepth=4), where=cfg.where(p))
        return
    X, Y, Z, T = co
    b = cfg.prog.bodies[p]
    r0 = mk("param", b["params"][0].get("name", "r_0"))
    zeta = zeta_of(cfg)
    spec = SP.elligator(r0, zeta)
    mul, sub = (lambda u, v: mk("mul", u, v)), (lambda u, v: mk("sub", u, v))
    obs = {
        "X:Z": sub(mul(X, spec["z"]), mul(spec["x"], Z)),
        "Y:Z": sub(mul(Y, spec["z"]), mul(spec["y"], Z)),
        "T*Z=X*Y": sub(mul(T, Z), mul(X, Y)),
    }
    for nm, ob in obs.items():
        r = N.poly(ob)
        rep.ob("%s:%s" % (key, nm), not r and not out.unmodelled,
               "the map must equal the specification's optimised Elligator 2 routine as a projective point for every r0 (%s); remainder: %s%s" % (
                   nm, N.show(r, 4), ("; unmodelled: " + "; ".join(out.unmodelled[:2])) if out.unmodelled else ""),
               where=cfg.where(p), sample={"obligation": "%s:%s" % (key, nm), "remainder_terms": len(r)})
    # SYM: "invariant under r0 -> -r0", decided on the code's own term (independently of the specification): substituting -r0 for r0 must give
    # the same projective point.  Holds exactly when the routine reads r0 only through r0^2 (all square-root and sign atoms are keyed by the
    # canonical polynomials of their arguments, so (-r0)^2 = r0^2 makes them the same atoms).
    neg = {r0: mk("neg", r0)}
    from . import poly as P_
    sqs = sorted({t for c_ in (X, Y, Z) for t in Tm.subterms(c_) if t.op == "isqrt_sq"}, key=lambda t: Tm.show(t, maxdepth=3))
    symbad = []
    import itertools
    for vals in itertools.product((True, False), repeat=len(sqs)):
        # case split on the square / non-square verdict(s) first (the verdict itself depends on r0^2 only), then substitute
        Xc, Yc, Zc = X, Y, Z
        for sq_, tv in zip(sqs, vals):
            Xc, Yc, Zc = (Tm.assume(c_, sq_, tv) for c_ in (Xc, Yc, Zc))
        Xn, Yn, Zn = (Tm.subst(c_, neg) for c_ in (Xc, Yc, Zc))
        NS = P_.Norm(K.Q, sign_odd=True)      # sign(-u) = not sign(u): decides the symmetry away from the zeros of the sign-tested quantities
        for nm, ob in (("X:Z", sub(mul(Xn, Zc), mul(Xc, Zn))), ("Y:Z", sub(mul(Yn, Zc), mul(Yc, Zn)))):
            r = NS.poly(ob)
            if r:
                symbad.append("%s in case %s: remainder %s" % (nm, ["square" if v_ else "non-square" for v_ in vals], NS.show(r, 3)))
    # VALID: "its output is always a valid element" - decided on the code's own coordinates, independently of the specification: in each case of
    # the square-root verdict the output satisfies the curve equation a X^2 + Y^2 = Z^2 + d T^2 and X Y = Z T as polynomial identities in r0
    # modulo the CONTRACT of the square-root routine (v^2 den = num, resp. zeta num) and S^2 = 1 for the +-1 selections.
    validbad = []
    for vals in itertools.product((True, False), repeat=len(sqs)):
        Xc, Yc, Zc, Tc = X, Y, Z, T
        for sq_, tv in zip(sqs, vals):
            Xc, Yc, Zc, Tc = (Tm.assume(c_, sq_, tv) for c_ in (Xc, Yc, Zc, Tc))
        NV = P_.Norm(K.Q)
        a_, d_ = mk("felem", "fq", K.A_COEFF % K.Q), mk("felem", "fq", K.D_COEFF)
        eqs = {"a*X^2 + Y^2 = Z^2 + d*T^2": sub(mk("add", mul(a_, mul(Xc, Xc)), mul(Yc, Yc)), mk("add", mul(Zc, Zc), mul(d_, mul(Tc, Tc)))),
               "X*Y = Z*T": sub(mul(Xc, Yc), mul(Zc, Tc))}
        for nm, ob in eqs.items():
            res, probs = P_.reduce_modulo_isqrt(NV, NV.poly(ob), vals[0] if vals else True, zeta)
            if res or probs:
                validbad.append("%s in the %s case: %s %s" % (nm, "square" if (vals and vals[0]) else "non-square", NV.show(res, 3), probs[:1]))
    rep.ob("VALID/%s/elligator_map" % cfg.name, not validbad and len(sqs) == 1 and not out.unmodelled,
           "the output of elligator_map must lie on the curve (and have T = XY/Z) for every r0, given the square-root contract; %s" % ("; ".join(validbad[:2]) or "ok (both cases)"),
           where=cfg.where(p), sample={"obligation": "VALID/%s/elligator_map" % cfg.name, "identities": 4})
    rep.ob("SYM/%s/elligator_map" % cfg.name, not symbad and len(sqs) >= 1 and not out.unmodelled,
           "elligator_map(-r0) must be the same projective point as elligator_map(r0) in the square and in the non-square case; %s" % ("; ".join(symbad[:2]) or "ok (%d case(s))" % (2 ** len(sqs))),
           where=cfg.where(p), sample={"obligation": "SYM/%s/elligator_map" % cfg.name, "cases": 2 ** len(sqs)})
    # not degenerate: Z must equal the spec's Z up to the same factor as X (guards against returning (0:0:0:0))
    rep.ob(key + ":nonzero", bool(N.poly(Z)) and bool(N.poly(X)), "coordinates must not vanish identically", where=cfg.where(p), nontrivial=False)
    # the designated square-root routine
    routines = sorted({a[0].args[0] for pc, kind, a, site in out.effects if kind == "isqrt_call"})
    want = "sqrt_ratio_zeta" if cfg.name in ("A", "R") else "non_arkworks_sqrt_ratio_zeta"
    rep.ob("FUNNEL/%s/elligator-isqrt" % cfg.name, routines == [want], "Elligator must use this build's designated ISQRT routine %s; calls: %s" % (want, routines), where=cfg.where(p), nontrivial=False)
    return p


def check_forwards(rep, cfg, pmap):
    loc = {pmap: (lambda ctx: mk("struct", "ark_curve::element::projective::Element", ("inner",), mk("elligator_out", ctx.args[0])))} if cfg.name in ("A", "R") else \
          {pmap: (lambda ctx: mk("elligator_el", ctx.args[0]))}
    loc.update(G.base_summaries_M(cfg, rep) if cfg.name == "M" else {})
    pe = cfg.one(rep, "encode_to_curve", lambda x: x.endswith("::encode_to_curve") and "r1cs" not in x)
    ph = cfg.one(rep, "hash_to_curve", lambda x: x.endswith("::hash_to_curve") and "r1cs" not in x)
    el = (lambda r: mk("elligator_out", r)) if cfg.name in ("A", "R") else (lambda r: mk("elligator_el", r))
    if pe:
        out = cfg.run(pe, local=loc)
        got = G.den(out.value)
        rep.ob("FWD/%s/encode_to_curve" % cfg.name, got is el(mk("param", "r")), "encode_to_curve(r) must be elligator_map(r); got %s" % Tm.show(got, maxdepth=5), where=cfg.where(pe))
    if ph:
        out = cfg.run(ph, local=loc)
        got = G.den(out.value)
        a, b = el(mk("param", "r_1")), el(mk("param", "r_2"))
        rep.ob("FWD/%s/hash_to_curve" % cfg.name, (got is mk("gadd", a, b) or got is mk("gadd", b, a)) and not out.unmodelled,
               "hash_to_curve(r1, r2) must be G_ADD(elligator_map(r1), elligator_map(r2)); got %s" % Tm.show(got, maxdepth=6), where=cfg.where(ph),
               sample={"obligation": "FWD/%s/hash_to_curve" % cfg.name, "got": Tm.show(got, maxdepth=5)})


def run(rep, facts, tier):
    rep.explanation = (
        "TERM: elligator_map of each build is interpreted into a polynomial function of r0 (ISQRT outputs as atoms, the sgn/twiddle selection and the "
        "sign fix as canonical ITE atoms) and compared projectively with the specification's optimised routine - equality of functions, so the "
        "square / non-square branches and both signs are covered at once. FWD: the public forms forward to it. Only conformance to the published "
        "optimised routine is decided; its equivalence to unoptimised Elligator 2 is not visible in the code's shape.")
    rep.rules += ["TERM", "FWD", "CONST", "SIB", "SYM (r0 -> -r0 invariance of the code's own term)", "VALID (curve equation and T = XY/Z modulo the square-root contract)"]
    rep.trusted += ["spec/decaf_spec.py transcription of the optimised map", "summary table"]
    rep.assumptions += ["optimised map == unoptimised Elligator 2 is an algebraic fact about square roots in Fq (not decided here); the r0 -> -r0 symmetry (SYM) and output validity (VALID: curve equation and T = XY/Z) ARE decided on the code's own term modulo the square-root contract, away from num*den = 0 / zeros of sign-tested quantities",
                        "ISQRT contract (C09), field ops (C10), group addition (C04)"]
    for name, f in facts.items():
        if name == "R":
            continue
        cfg = Cfg(f)
        q = K.Q
        z = zeta_of(cfg)
        rep.ob("CONST/%s/zeta-nonsquare" % name, z is not None and K.legendre(z, q) == -1, "ZETA must be a quadratic non-residue", nontrivial=False)
        rep.ob("CONST/%s/a-2d,d-a" % name, (K.A_COEFF - 2 * K.D_COEFF) % q != 0 and (K.D_COEFF - K.A_COEFF) % q != 0, "a-2d and d-a are non-zero", nontrivial=False)
        pm = check_map(rep, cfg)
        if pm:
            check_forwards(rep, cfg, pm)
    if "R" in facts:
        from . import gadgets
        gadgets.check_gadget_elligator(rep, facts["R"], "C07")
    # the value sqrt_ratio_zeta returns for a NON-square ratio is consumed by this map only (the codec reads just the flag), so the routine's
    # full four-case contract is a necessary condition of the map being the specified one: adopt C09's instances on that routine.
    from . import c09
    from .common import import_rules
    n9 = import_rules(rep, c09, {k: v for k, v in facts.items() if k != "R"}, tier, "ISQRT")
    rep.rules += ["ISQRT (C09's rule instances on sqrt_ratio_zeta, whose non-square output only this map consumes)"]
    rep.floor("isqrt_contract_obligations", n9, 100)
    rep.floor("obligations", len(rep.obligations), 16)
