"""C07 — hash-to-group equals the specified Elligator 2 map (necessary part: conformance to the published optimised routine).

TERM: the one-input map of each build, as a canonical polynomial function of r0 (ISQRT uninterpreted), equals the
specification's optimised map projectively (X1*Z2 = X2*Z1, Y1*Z2 = Y2*Z1, and T*Z = X*Y).  FWD: encode_to_curve is
the map, hash_to_curve is the group sum of two maps.  CONST: zeta non-square, a-2d and d-a non-zero.
"""
from . import terms as Tm, consts as K
from .terms import mk, lit, field, TRUE, FALSE
from . import curve as C
from .curve import Cfg, pkey
from .common import norm_path
from . import groupops as G
from spec import decaf_spec as SP


def zeta_of(cfg):
    c = cfg.prog.consts.get("ark_curve::constants::ZETA") or cfg.prog.consts.get("min_curve::constants::ZETA")
    return K.felt(c["value"]["val"], "fq")[1] if c else None


def check_map(rep, cfg):
    p = cfg.p_elligator(rep)
    if p is None:
        return
    out = cfg.run(p)
    N = cfg.norm
    co = C.coords(out.value)
    key = "TERM/%s/elligator_map" % cfg.name
    if co is None:
        rep.ob(key + ":shape", False, "elligator_map does not return an element built from coordinates: %s" % Tm.show(out.value, maxdepth=4), where=cfg.where(p))
        return
    X, Y, Z, T = co
    b = cfg.prog.bodies[p]
    r0 = mk("param", b["params"][0].get("name", "r_0"))
    zeta = zeta_of(cfg)
    spec = SP.elligator(r0, zeta)
    mul, sub = (lambda u, v: mk("mul", u, v)), (lambda u, v: mk("sub", u, v))
    obs = {
        "X:Z": sub(mul(X, spec["z"]), mul(spec["x"], Z)),
        "Y:Z": sub(mul(Y, spec["z"]), mul(spec["y"], Z)),
        "T*Z=X*Y": sub(mul(T, Z), mul(X, Y)),
    }
    for nm, ob in obs.items():
        r = N.poly(ob)
        rep.ob("%s:%s" % (key, nm), not r and not out.unmodelled,
               "the map must equal the specification's optimised Elligator 2 routine as a projective point for every r0 (%s); remainder: %s%s" % (
                   nm, N.show(r, 4), ("; unmodelled: " + "; ".join(out.unmodelled[:2])) if out.unmodelled else ""),
               where=cfg.where(p), sample={"obligation": "%s:%s" % (key, nm), "remainder_terms": len(r)})
    # not degenerate: Z must equal the spec's Z up to the same factor as X (guards against returning (0:0:0:0))
    rep.ob(key + ":nonzero", bool(N.poly(Z)) and bool(N.poly(X)), "coordinates must not vanish identically", where=cfg.where(p), nontrivial=False)
    # the designated square-root routine
    routines = sorted({a[0].args[0] for pc, kind, a, site in out.effects if kind == "isqrt_call"})
    want = "sqrt_ratio_zeta" if cfg.name in ("A", "R") else "non_arkworks_sqrt_ratio_zeta"
    rep.ob("FUNNEL/%s/elligator-isqrt" % cfg.name, routines == [want], "Elligator must use this build's designated ISQRT routine %s; calls: %s" % (want, routines), where=cfg.where(p), nontrivial=False)
    return p


def check_forwards(rep, cfg, pmap):
    loc = {pmap: (lambda ctx: mk("struct", "ark_curve::element::projective::Element", ("inner",), mk("elligator_out", ctx.args[0])))} if cfg.name in ("A", "R") else \
          {pmap: (lambda ctx: mk("elligator_el", ctx.args[0]))}
    loc.update(G.base_summaries_M(cfg, rep) if cfg.name == "M" else {})
    pe = cfg.one(rep, "encode_to_curve", lambda x: x.endswith("::encode_to_curve") and "r1cs" not in x)
    ph = cfg.one(rep, "hash_to_curve", lambda x: x.endswith("::hash_to_curve") and "r1cs" not in x)
    el = (lambda r: mk("elligator_out", r)) if cfg.name in ("A", "R") else (lambda r: mk("elligator_el", r))
    if pe:
        out = cfg.run(pe, local=loc)
        got = G.den(out.value)
        rep.ob("FWD/%s/encode_to_curve" % cfg.name, got is el(mk("param", "r")), "encode_to_curve(r) must be elligator_map(r); got %s" % Tm.show(got, maxdepth=5), where=cfg.where(pe))
    if ph:
        out = cfg.run(ph, local=loc)
        got = G.den(out.value)
        a, b = el(mk("param", "r_1")), el(mk("param", "r_2"))
        rep.ob("FWD/%s/hash_to_curve" % cfg.name, (got is mk("gadd", a, b) or got is mk("gadd", b, a)) and not out.unmodelled,
               "hash_to_curve(r1, r2) must be G_ADD(elligator_map(r1), elligator_map(r2)); got %s" % Tm.show(got, maxdepth=6), where=cfg.where(ph),
               sample={"obligation": "FWD/%s/hash_to_curve" % cfg.name, "got": Tm.show(got, maxdepth=5)})


def run(rep, facts, tier):
    rep.explanation = (
        "TERM: elligator_map of each build is interpreted into a polynomial function of r0 (ISQRT outputs as atoms, the sgn/twiddle selection and the "
        "sign fix as canonical ITE atoms) and compared projectively with the specification's optimised routine - equality of functions, so the "
        "square / non-square branches and both signs are covered at once. FWD: the public forms forward to it. Only conformance to the published "
        "optimised routine is decided; its equivalence to unoptimised Elligator 2 is not visible in the code's shape.")
    rep.rules += ["TERM", "FWD", "CONST", "SIB"]
    rep.trusted += ["spec/decaf_spec.py transcription of the optimised map", "summary table"]
    rep.assumptions += ["optimised map == unoptimised Elligator 2, r0 -> -r0 symmetry and output validity are algebraic facts about square roots in Fq (not decided here)",
                        "ISQRT contract (C09), field ops (C10), group addition (C04)"]
    for name, f in facts.items():
        if name == "R":
            continue
        cfg = Cfg(f)
        q = K.Q
        z = zeta_of(cfg)
        rep.ob("CONST/%s/zeta-nonsquare" % name, z is not None and K.legendre(z, q) == -1, "ZETA must be a quadratic non-residue", nontrivial=False)
        rep.ob("CONST/%s/a-2d,d-a" % name, (K.A_COEFF - 2 * K.D_COEFF) % q != 0 and (K.D_COEFF - K.A_COEFF) % q != 0, "a-2d and d-a are non-zero", nontrivial=False)
        pm = check_map(rep, cfg)
        if pm:
            check_forwards(rep, cfg, pm)
    if "R" in facts:
        from . import gadgets
        gadgets.check_gadget_elligator(rep, facts["R"], "C07")
    # the value sqrt_ratio_zeta returns for a NON-square ratio is consumed by this map only (the codec reads just the flag), so the routine's
    # full four-case contract is a necessary condition of the map being the specified one: adopt C09's instances on that routine.
    from . import c09
    from .common import import_rules
    n9 = import_rules(rep, c09, {k: v for k, v in facts.items() if k != "R"}, tier, "ISQRT")
    rep.rules += ["ISQRT (C09's rule instances on sqrt_ratio_zeta, whose non-square output only this map consumes)"]
    rep.floor("isqrt_contract_obligations", n9, 100)
    rep.floor("obligations", len(rep.obligations), 16)
