"""Build (or load from a content-addressed cache) the fact files for the three
configurations of /repo.  Facts are produced by the rustc_private driver under
`cargo +nightly check`; nothing of decaf377 is executed."""
import fcntl, glob, hashlib, json, os, shutil, subprocess, sys, time

VERIF = os.path.dirname(os.path.dirname(os.path.abspath(__file__)))
REPO = os.environ.get("DECAF_REPO", "/repo")
CACHE = os.path.join(VERIF, ".cache")
DRIVER_DIR = os.path.join(VERIF, "driver")
DRIVER = os.path.join(DRIVER_DIR, "target", "release", "decaf-facts")

CFGS = {
    "A": [],
    "R": ["--features", "r1cs"],
    "M": ["--no-default-features"],
}


def _env():
    e = dict(os.environ)
    e["CARGO_NET_OFFLINE"] = "true"
    return e


def build_driver():
    src_newer = False
    if os.path.exists(DRIVER):
        t = os.path.getmtime(DRIVER)
        for f in glob.glob(os.path.join(DRIVER_DIR, "src", "*.rs")):
            if os.path.getmtime(f) > t:
                src_newer = True
    if not os.path.exists(DRIVER) or src_newer:
        r = subprocess.run(["cargo", "+nightly", "build", "--release", "--offline"], cwd=DRIVER_DIR,
                           env=_env(), stdout=subprocess.PIPE, stderr=subprocess.STDOUT, text=True)
        if r.returncode != 0:
            sys.stderr.write(r.stdout)
            raise SystemExit("FATAL: cannot build the fact-extraction driver")
    return DRIVER


def tree_hash():
    """sha256 over every file that takes part in the build of /repo's working tree"""
    h = hashlib.sha256()
    files = []
    for root, dirs, fs in os.walk(os.path.join(REPO, "src")):
        dirs.sort()
        for f in sorted(fs):
            files.append(os.path.join(root, f))
    for f in ("Cargo.toml", "Cargo.lock", "build.rs"):
        p = os.path.join(REPO, f)
        if os.path.exists(p):
            files.append(p)
    for p in files:
        h.update(os.path.relpath(p, REPO).encode())
        h.update(b"\0")
        with open(p, "rb") as fh:
            h.update(fh.read())
        h.update(b"\0")
    with open(DRIVER, "rb") as fh:
        h.update(hashlib.sha256(fh.read()).digest())
    return h.hexdigest()[:24]


def _sysroot():
    return subprocess.run(["rustc", "+nightly", "--print", "sysroot"], stdout=subprocess.PIPE, text=True,
                          check=True).stdout.strip()


def _run_cfg(cfg, out):
    tgt = os.path.join(CACHE, "target-" + cfg)
    os.makedirs(tgt, exist_ok=True)
    # force the workspace member through the wrapper again: a fresh fingerprint would make cargo
    # skip it and replay old output
    for fp in glob.glob(os.path.join(tgt, "debug", ".fingerprint", "decaf377-*")):
        shutil.rmtree(fp, ignore_errors=True)
    if os.path.exists(out):
        os.remove(out)
    env = _env()
    env["LD_LIBRARY_PATH"] = _sysroot() + "/lib" + (":" + env["LD_LIBRARY_PATH"] if env.get("LD_LIBRARY_PATH") else "")
    env["RUSTFLAGS"] = "-Awarnings"
    env["CARGO_INCREMENTAL"] = "0"
    env["RUSTC_WORKSPACE_WRAPPER"] = DRIVER
    env["DECAF_FACTS_OUT"] = out
    env["CARGO_TARGET_DIR"] = tgt
    cmd = ["cargo", "+nightly", "check", "--offline", "--lib"] + CFGS[cfg]
    r = subprocess.run(cmd, cwd=REPO, env=env, stdout=subprocess.PIPE, stderr=subprocess.STDOUT, text=True)
    if r.returncode != 0 or not os.path.exists(out):
        sys.stderr.write(r.stdout[-6000:])
        raise SystemExit("FATAL: fact extraction failed for cfg %s (does /repo compile in this configuration?)" % cfg)


def get(cfgs):
    """returns {cfg: facts-dict}; builds what is missing for the current working tree"""
    os.makedirs(CACHE, exist_ok=True)
    build_driver()
    res = {}
    with open(os.path.join(CACHE, "lock"), "w") as lk:
        fcntl.flock(lk, fcntl.LOCK_EX)
        th = tree_hash()
        d = os.path.join(CACHE, "facts-" + th)
        os.makedirs(d, exist_ok=True)
        for c in cfgs:
            out = os.path.join(d, c + ".json")
            if not os.path.exists(out):
                t0 = time.time()
                tmp = out + ".tmp"
                _run_cfg(c, tmp)
                os.rename(tmp, out)
                sys.stderr.write("[facts] cfg %s extracted in %.1fs\n" % (c, time.time() - t0))
        # prune old fact dirs (keep the 4 most recent)
        ds = sorted(glob.glob(os.path.join(CACHE, "facts-*")), key=os.path.getmtime, reverse=True)
        for old in ds[10:]:
            if old != d:
                shutil.rmtree(old, ignore_errors=True)
        os.utime(d)
        fcntl.flock(lk, fcntl.LOCK_UN)
    for c in cfgs:
        with open(os.path.join(d, c + ".json")) as fh:
            res[c] = json.load(fh)
        res[c]["_cfg"] = c
        res[c]["_tree"] = th
    return res


if __name__ == "__main__":
    f = get(sys.argv[1:] or ["A", "M", "R"])
    for c, d in f.items():
        print(c, len(d["bodies"]), "bodies", len(d["consts"]), "consts", len(d["impls"]), "impls")
