"""C13 — R1CS gadgets compute what the native code computes, and are complete (term agreement + typestate)."""
from . import terms as Tm
from .terms import mk
from .curve import Cfg
from . import gadgets as GD


def run(rep, facts, tier):
    rep.explanation = (
        "cfg R (--features r1cs) is analysed by the same driver. SIB/TERM: FqVar arithmetic maps to the same ring operations as native Fq, so the in-circuit "
        "encode / decode / Elligator are compared, as canonical polynomial functions, with the specification under Z := 1, T := X*Y (the same reference the native "
        "code is compared with in C01/C03/C07). ENFORCE: the unconditional constraints of decode are exactly the native rejections. FWD: all 24 operator forms on both "
        "ElementVar types, negate, double. HINT: isqrt's witnesses are the native sqrt_ratio_zeta(1, value). ALLOC: allocation modes. LAZY: exhaustive 3 states x 2 "
        "methods enumeration of the lazy cell.")
    rep.rules += ["SIB/TERM", "ENFORCE", "FWD", "HINT", "SIGN", "ALLOC", "LAZY"]
    rep.trusted += ["ark-r1cs-std gadgets (FpVar arithmetic, Boolean, select, to_bits_le, AffineVar group law) are complete and compute what they say", "summary table"]
    rep.assumptions += ["satisfiability of honest synthesis where inverse() denominators vanish (affine_x_den, affine_y_den of Elligator) is an algebraic non-shape fact - not decided",
                        "sqrt_ratio_zeta's hint is right (C09)"]
    if "R" not in facts:
        rep.fail_closed("C13 needs the r1cs configuration")
        return
    cfg = Cfg(facts["R"])
    GD.check_gadget_codec(rep, facts["R"], "C13", cfg)
    GD.check_gadget_elligator(rep, facts["R"], "C13", cfg)
    GD.check_gadget_group_ops(rep, cfg, "C13")
    GD.check_eq_select(rep, cfg)
    GD.check_sign_gadget(rep, cfg)
    rep.floor("gadget_identity_predicates", GD.check_gadget_identity_predicates(rep, cfg), 2)
    rep.floor("gadget_default_methods", GD.check_gadget_default_set(rep, cfg), 30)
    GD.isqrt_hint(rep, cfg)
    GD.alloc_modes(rep, cfg, "C13")
    GD.lazy_typestate(rep, cfg)
    GD.eager_decode(rep, cfg)
    # completeness of the hint block: for each (flag, den == 0) row an HONEST prover can be in, the enforced equation and the case check must
    # admit the native answer.  These are the rows of C14's guard table except the dishonest one (flag = true with den = 0), which is a soundness row.
    from . import c14
    from .common import import_rules
    ng = import_rules(rep, c14, facts, tier, "HONEST", pred=lambda k: k.startswith("GUARD/") and "row(ws=1,dz=1)" not in k)
    rep.floor("guard_rows_honest", ng, 5)
    # the outer (lazy) ElementVar forwards
    for nm in ("encode_to_curve",):
        ps = [x for x in cfg.prog.bodies if x.endswith("element::ElementVar::" + nm)]
        for p in ps:
            loc = {"ark_curve::r1cs::element::ElementVar::elligator_map": (lambda ctx: Tm.variant("Ok", mk("ELL", ctx.args[0])))}
            out = cfg.run(p, local=loc)
            rep.ob("FWD/R/element::ElementVar::" + nm, out.value is Tm.variant("Ok", mk("ELL", mk("param", "r_var"))), "%s must forward to elligator_map; got %s" % (nm, Tm.show(out.value, maxdepth=4)), where=cfg.where(p), nontrivial=False)
    rep.floor("obligations", len(rep.obligations), 55)
