"""Engine T: forward abstract interpretation of type-checked HIR (as dumped by the driver) into terms.

No path enumeration and no solver: one pass over each body, environment merge at joins with ITE
terms, crate-local callees inlined (bounded depth), external callees mapped through the summary
table in summaries.py, everything else an uninterpreted symbol U(callee; args).
"""
import re
from . import terms as Tm
from .terms import T, mk, lit, ite, not_, and_, or_, eq, ne, field, index, store, variant, is_variant, payload, TRUE, FALSE, UNIT

MAX_DEPTH = 14
UNROLL_MAX = 16


def strip_lt(s):
    s = re.sub(r"'[A-Za-z_][A-Za-z0-9_]*\s*", "", s)
    return s


def strip_ref(ty):
    ty = ty.strip()
    while ty.startswith("&"):
        ty = ty[1:].lstrip()
        ty = re.sub(r"^'[A-Za-z_]\w*\s+", "", ty)
        if ty.startswith("mut "):
            ty = ty[4:]
    return ty


class Program:
    """index over one configuration's facts"""

    def __init__(self, facts):
        self.facts = facts
        self.cfg = facts["_cfg"]
        self.bodies = {}
        for b in facts["bodies"]:
            self.bodies[b["path"]] = b
        self.consts = {c["path"]: c for c in facts["consts"]}
        self.impls = facts["impls"]
        self.adts = {a["path"]: a for a in facts["adts"]}
        # (trait-string, self-string) with lifetimes stripped -> impl record
        self.impl_index = {}
        for im in self.impls:
            if "trait" in im:
                tr = im["trait"]
                m = re.match(r"^<(.*) as (.*)>$", tr)
                if m:
                    tr = m.group(2)
                im["trait_only"] = tr
                self.impl_index[(strip_lt(tr), strip_lt(im["self"]))] = im

    def find_impl_item(self, trait, selfty, name):
        im = self.impl_index.get((strip_lt(trait), strip_lt(selfty)))
        if im is None:
            return None
        for it in im["items"]:
            if it["name"] == name:
                return it["path"]
        return None

    def body(self, path):
        b = self.bodies.get(path)
        if b is not None and "body" in b:
            return b
        return None


class Closure:
    def __init__(self, params, body, env, fr):
        self.params, self.body, self.env, self.fr = params, body, env, fr


class Outcome:
    """result of interpreting one body"""

    def __init__(self):
        self.value = None          # return term (ITE over the return flows)
        self.outs = {}             # param index -> post-state term for &mut parameters
        self.flows = []            # [(pc tuple, value)] in program order (returns then fall-through)
        self.panics = []           # [(pc tuple, site dict)]
        self.effects = []          # [(pc tuple, kind, args tuple, site)]
        self.calls = []            # [(callee key, site)] calls on the interpreted paths (after inlining)
        self.unmodelled = []       # notes
        self.params = []           # param terms


class Frame:
    def __init__(self, path, depth, out):
        self.path = path
        self.depth = depth
        self.out = out
        self.rets = []     # (pc, val, env)
        self.loops = []    # stack of dicts {brk: [...], cont: [...]}
        self.tysub = {}


_ARR_TY = re.compile(r"\[[^;\]]+; (\d+)\]$")
VISITED = set()     # body paths interpreted (entry or inlined) in this process: coverage map of the term engine


class _Overlay(dict):
    """environment view that reads through to a base env and records writes separately (bindings of one or-pattern alternative)"""
    def __init__(self, base, rec):
        dict.__init__(self, base)
        self.rec = rec

    def __setitem__(self, k, v):
        dict.__setitem__(self, k, v)
        self.rec[k] = v


class Interp:
    def __init__(self, prog, summaries, opts=None):
        self.prog = prog
        self.S = summaries
        self.opts = opts or {}
        self.closures = {}
        self.nsym = 0
        self.stack = []
        self.static_cache = {}
        self.lengths = {}
        self.cur_env = None

    def length_of(self, t, e=None):
        """statically known length of an array/slice-valued term"""
        if isinstance(e, dict):
            ty = strip_ref(e.get("tya") or e.get("ty") or "")
            m = re.match(r"\[[^;\]]+; (\d+)\]$", ty)
            if m:
                return int(m.group(1))
            ty = strip_ref(e.get("ty") or "")
            m = re.match(r"\[[^;\]]+; (\d+)\]$", ty)
            if m:
                return int(m.group(1))
        if t.op == "array":
            return len(t.args)
        if t.op == "repeat" and isinstance(t.args[1], int):
            return t.args[1]
        if t.op == "chunk":
            return t.args[1]
        if t.op in ("store", "store_range"):
            return self.length_of(t.args[0])
        if t.op == "slice" and isinstance(t.args[1], int):
            return t.args[2] - t.args[1]
        return self.lengths.get(t)

    def length_of_place(self, pr):
        env = self.cur_env or {}
        v = env.get(pr.args[0])
        if v is None:
            return None
        for prj in pr.args[1]:
            kind, x = prj[0], prj[1]
            if kind == "r":
                return prj[2] - prj[1]
            v = field(v, x) if kind == "f" else index(v, x)
        return self.length_of(v)

    # ---- helpers -----------------------------------------------------------------------------
    def fresh(self, hint):
        self.nsym += 1
        return mk("sym", "%s#%d" % (hint, self.nsym))

    def note(self, fr, msg, e=None):
        s = msg + ((" at " + e.get("sp", "?")) if isinstance(e, dict) else "")
        if s not in fr.out.unmodelled:
            fr.out.unmodelled.append(s)

    def const_term(self, path):
        c = self.prog.consts.get(path)
        if c is None:
            return None
        v = c.get("value", {}).get("val")
        if v is None:
            return None
        return self.S.value_to_term(v)

    # ---- entry -------------------------------------------------------------------------------
    def run(self, path, args=None, generic_args=None):
        b = self.prog.body(path)
        if b is None:
            raise KeyError("no body for " + path)
        VISITED.add(path)
        out = Outcome()
        fr = Frame(path, 0, out)
        params = []
        names = []
        for i, p in enumerate(b.get("params", [])):
            nm = p.get("name", "p%d" % i) if p.get("k") == "Bind" else "p%d" % i
            names.append(nm)
            params.append(args[i] if args is not None else mk("param", nm))
            m = re.match(r"\[[^;\]]+; (\d+)\]$", strip_ref(p.get("ty", "")))
            if m and args is None:
                self.lengths[params[-1]] = int(m.group(1))
        out.params = params
        val, outs = self.apply_body(b, params, fr, top=True)
        out.value = val
        out.outs = outs
        return out

    def apply_body(self, b, argterms, fr, top=False):
        """interpret body b with the given argument terms inside frame fr (fr.rets must be fresh)"""
        env = {"$pc": ()}
        for p, a in zip(b.get("params", []), argterms):
            self.bind(p, a, env, fr)
        r = self.expr(b["body"], env, fr)
        flows = list(fr.rets)
        if r is not None:
            flows.append((r[1]["$pc"], r[0], r[1]))
        if not flows:
            return mk("bottom"), {}
        val = self.assemble([(pc, v) for pc, v, _ in flows])
        if top:
            fr.out.flows = [(pc, v) for pc, v, _ in flows]
        outs = {}
        for i, p in enumerate(b.get("params", [])):
            if p.get("k") == "Bind" and p.get("ty", "").lstrip().startswith("&") and "mut " in p["ty"][:12]:
                lid = p["id"]
                outs[i] = self.assemble([(pc, e.get(lid, mk("bottom"))) for pc, v, e in flows])
        return val, outs

    def assemble(self, flows):
        """nested ITE over mutually exclusive flows [(pc tuple, value)]"""
        if len(flows) == 1:
            return flows[0][1]
        # common prefix of all pcs carries no information
        n = 0
        first = flows[0][0]
        while all(len(pc) > n and pc[n] is first[n] for pc, _ in flows) and len(first) > n:
            n += 1
        flows = [(pc[n:], v) for pc, v in flows]

        def build(fl, known):
            if len(fl) == 1:
                return fl[0][1]
            pc, v = fl[0]
            cs = [c for c in pc if c not in known]
            c = Tm.conj(cs)
            if c is TRUE:
                return v
            k2 = set(known)
            if len(cs) == 1:
                k2.add(not_(cs[0]))
            return ite(c, v, build(fl[1:], k2))
        return build(flows, set())

    # ---- patterns ----------------------------------------------------------------------------
    def bind(self, p, val, env, fr):
        """irrefutable binding"""
        k = p.get("k")
        if k == "Bind":
            env[p["id"]] = val
            if "sub" in p:
                self.bind(p["sub"], val, env, fr)
        elif k == "Wild":
            pass
        elif k == "Tuple":
            for i, sp in enumerate(p["ps"]):
                self.bind(sp, field(val, str(i)), env, fr)
        elif k == "Struct":
            for f in p["fields"]:
                self.bind(f["pat"], field(val, f["name"]), env, fr)
        elif k == "TupleStruct":
            vn = self.variant_name(p.get("r", {}))
            for i, sp in enumerate(p["ps"]):
                if vn in ("Some", "Ok", "Err") or self.is_enum_variant(p.get("r", {})):
                    self.bind(sp, payload(val, vn, i), env, fr)
                else:
                    self.bind(sp, field(val, str(i)), env, fr)
        elif k in ("Ref", "Deref"):
            self.bind(p["p"], val, env, fr)
        elif k == "Slice" and "mid" not in p and _ARR_TY.match(strip_ref(p.get("ty") or "")) \
                and int(_ARR_TY.match(strip_ref(p["ty"])).group(1)) == len(p["pre"]) + len(p["post"]):
            # irrefutable array pattern [a, b, .., z] without a rest binding: element i of the array
            for i, sp in enumerate(p["pre"] + p["post"]):
                self.bind(sp, index(val, lit(i)), env, fr)
        else:
            self.note(fr, "unmodelled pattern kind %s" % k)

    def variant_name(self, r):
        p = r.get("path") or r.get("impl") or ""
        return p.split("::")[-1]

    def is_enum_variant(self, r):
        return "Variant" in (r.get("dk") or "")

    def pat_test(self, p, val, env, fr):
        """refutable pattern: returns condition term under which it matches and binds into env"""
        k = p.get("k")
        if k in ("Bind",):
            env[p["id"]] = val
            if "sub" in p:
                return self.pat_test(p["sub"], val, env, fr)
            return TRUE
        if k == "Wild":
            return TRUE
        if k == "Lit":
            lv = p["lit"].get("v")
            if p["lit"].get("lk") == "Int":
                lv = int(lv)
                if p.get("neg"):
                    lv = -lv
            return eq(val, lit(lv))
        if k == "Path":
            r = p.get("r", {})
            if self.is_enum_variant(r) or r.get("dk", "").startswith("Ctor"):
                return is_variant(val, self.variant_name(r))
            ct = self.const_term(r.get("path", ""))
            if ct is not None:
                return eq(val, ct)
            return mk("matches", val, r.get("path", "?"))
        if k == "TupleStruct":
            vn = self.variant_name(p.get("r", {}))
            isenum = vn in ("Some", "Ok", "Err") or self.is_enum_variant(p.get("r", {}))
            c = is_variant(val, vn) if isenum else TRUE
            for i, sp in enumerate(p["ps"]):
                sub = payload(val, vn, i) if isenum else field(val, str(i))
                c = and_(c, self.pat_test(sp, sub, env, fr))
            return c
        if k == "Tuple":
            c = TRUE
            for i, sp in enumerate(p["ps"]):
                c = and_(c, self.pat_test(sp, field(val, str(i)), env, fr))
            return c
        if k == "Struct":
            r = p.get("r", {})
            c = is_variant(val, self.variant_name(r)) if self.is_enum_variant(r) else TRUE
            for f in p["fields"]:
                sub = mk("vfield", val, f["name"]) if self.is_enum_variant(r) else field(val, f["name"])
                if self.is_enum_variant(r) and val.op == "variant_struct" and f["name"] in val.args[1]:
                    sub = val.args[2 + val.args[1].index(f["name"])]
                c = and_(c, self.pat_test(f["pat"], sub, env, fr))
            return c
        if k in ("Ref", "Deref"):
            return self.pat_test(p["p"], val, env, fr)
        if k == "Or":
            # each alternative binds the same names; a name's value is the one from the first alternative that matches
            c = FALSE
            alts = []
            for sp in p["ps"]:
                e2 = {}
                ci = self.pat_test(sp, val, _Overlay(env, e2), fr)
                alts.append((ci, e2))
                c = or_(c, ci)
            names = []
            for _, e2 in alts:
                for n_ in e2:
                    if n_ not in names:
                        names.append(n_)
            for n_ in names:
                v = None
                for ci, e2 in reversed(alts):
                    if n_ in e2:
                        v = e2[n_] if v is None else ite(ci, e2[n_], v)
                env[n_] = v
            return c
        self.note(fr, "unmodelled refutable pattern %s" % k)
        return mk("matches?", val, k or "?")

    # ---- places ------------------------------------------------------------------------------
    def place(self, e, env, fr):
        """returns (local id, [projections]) or None"""
        k = e["k"]
        if k == "Path":
            r = e["r"]
            if r.get("res") == "Local":
                v = env.get(r["id"])
                if v is not None and v.op == "placeref":
                    return (v.args[0], list(v.args[1]))
                return (r["id"], [])
            return None
        if k == "Field":
            b = self.place(e["base"], env, fr)
            if b is None:
                return None
            return (b[0], b[1] + [("f", e["name"])])
        if k == "Index":
            b = self.place(e["base"], env, fr)
            if b is None:
                return None
            r = self.expr(e["idx"], env, fr)
            if r is None:
                return None
            bv = self.read_place((b[0], b[1]), env)
            ix = self.full_range(r[0], bv, e["base"])
            if ix.op == "rangefull":
                n_ = self.length_of(bv, e["base"])
                return (b[0], b[1])
            return (b[0], b[1] + [("i", ix)])
        if k in ("Paren", "AddrOf"):
            return self.place(e["x"], env, fr)
        if k == "Unary" and e["op"] == "Deref":
            return self.place(e["x"], env, fr)
        if k == "MethodCall" and e.get("name") in ("borrow_mut", "as_mut", "deref_mut", "by_ref", "as_mut_slice"):
            return self.place(e["recv"], env, fr)
        return None

    def read_place(self, pl, env):
        v = env.get(pl[0], mk("undef", pl[0]))
        for pr in pl[1]:
            kind, x = pr[0], pr[1]
            if kind == "f":
                v = field(v, x)
            elif kind == "r":
                v = mk("slice", v, pr[1], pr[2])
            else:
                v = index(v, x)
        return v

    def write_place(self, pl, val, env):
        def upd(base, projs, val):
            if not projs:
                return val
            kind, x = projs[0][0], projs[0][1]
            if kind == "f":
                return Tm.update_field(base, x, upd(field(base, x), projs[1:], val))
            if kind == "r":
                lo, hi = projs[0][1], projs[0][2]
                return mk("store_range", base, lo, hi, upd(mk("slice", base, lo, hi), projs[1:], val))
            return store(base, x, upd(index(base, x), projs[1:], val))
        env[pl[0]] = upd(env.get(pl[0], mk("undef", pl[0])), pl[1], val)

    # ---- expressions -------------------------------------------------------------------------
    def expr(self, e, env, fr):
        """returns (value, env) for the normal continuation, or None if control does not continue"""
        k = e["k"]
        m = getattr(self, "x_" + k, None)
        if m is None:
            self.note(fr, "unmodelled expression kind %s" % k, e)
            return (mk("unknown", k, e.get("sp", "")), env)
        r = m(e, env, fr)
        if r is not None and "[" in (e.get("ty") or ""):
            # remember the static length of array-typed values (lets zip / fold / for unroll over opaque arrays)
            m_ = _ARR_TY.match(strip_ref(e["ty"]))
            if m_ and isinstance(r[0], Tm.T) and r[0].op not in ("array", "repeat"):
                self.lengths.setdefault(r[0], int(m_.group(1)))
        if r is not None and "adj" in e:
            # auto-deref through an overloaded Deref (e.g. `&LAZY_STATIC` used where `&T` is expected)
            for a in e["adj"]:
                if a.get("k") == "Deref" and a.get("overloaded"):
                    v = r[0]
                    if v.op in ("static", "lazy"):
                        class _C:      # minimal call context for lazy_value
                            pass
                        c = _C()
                        c.I, c.fr, c.env, c.e = self, fr, r[1], e
                        r = (self.S.lazy_value(c, v), r[1])
        return r

    def exprs(self, es, env, fr):
        vals = []
        for x in es:
            r = self.expr(x, env, fr)
            if r is None:
                return None
            vals.append(r[0])
            env = r[1]
        return vals, env

    def x_Lit(self, e, env, fr):
        l = e["lit"]
        if l["lk"] == "Int":
            return (lit(int(l["v"])), env)
        if l["lk"] == "Bool":
            if "cfg" in e.get("mac", []):
                return (mk("cfgflag", e.get("sp", "")), env)
            return (TRUE if l["v"] else FALSE, env)
        return (mk("strlit", str(l.get("v"))), env)

    def x_Paren(self, e, env, fr):
        return self.expr(e["x"], env, fr)

    def x_AddrOf(self, e, env, fr):
        return self.expr(e["x"], env, fr)

    def x_Cast(self, e, env, fr):
        r = self.expr(e["x"], env, fr)
        if r is None:
            return None
        v, env = r
        ty = e["ty"]
        if Tm.is_lit(v) and isinstance(v.args[0], bool) and re.match(r"[ui]\d+|usize", ty):
            return (lit(1 if v.args[0] else 0), env)
        if Tm.is_lit(v) and isinstance(v.args[0], int):
            m = re.match(r"u(\d+)$", ty)
            if m:
                return (lit(v.args[0] & ((1 << int(m.group(1))) - 1)), env)
            if ty in ("usize", "u128", "i128", "i64", "isize"):
                return (v, env)
        return (mk("cast", ty, v), env)

    def x_Path(self, e, env, fr):
        r = e["r"]
        res = r.get("res")
        if res == "Local":
            v = env.get(r["id"])
            if v is None:
                v = mk("undef", r.get("name", "?"))
            return (v, env)
        if res == "Def":
            dk = r.get("dk", "")
            c = r.get("callee", {})
            if dk.startswith("Ctor"):
                vn = c.get("path", "").split("::")[-1]
                if "Const" in dk:
                    if vn == "None" or "Variant" in dk:
                        return (variant(vn), env)
                    return (mk("struct", c.get("parent", vn), ()), env)
                return (mk("ctor", c.get("path", ""), dk), env)
            if dk == "ConstParam":
                nm = c.get("path", "").split("::")[-1]
                if nm in fr.tysub:
                    return (fr.tysub[nm], env)
                return (mk("constparam", nm), env)
            if dk.startswith("Const") or dk.startswith("AssocConst"):
                path = (c.get("inst") or {}).get("path") or c.get("path")
                path = self.resolve_generic_const(c, fr) or path
                s = self.S.const_summary(self, path, c, e)
                if s is not None:
                    return (s, env)
                ct = self.const_term(path)
                if ct is not None:
                    return (ct, env)
                return (mk("const", path), env)
            if dk.startswith("Static"):
                sp = c.get("path")
                sb = self.prog.body(sp)
                if sb is not None and not sb.get("ty", "").startswith("once_cell::") and sb["body"].get("k") == "Lit":
                    return self.x_Lit(sb["body"], env, fr)       # plain `static N: u32 = 47`
                if sb is not None and re.fullmatch(r"[ui](8|16|32|64|128|size)|bool", sb.get("ty", "") or "") and "mutability: Mut" not in str(sb.get("dk", "")):
                    # an immutable scalar static with a constant initialiser expression (`static N: u32 = Fq::TWO_ADICITY`)
                    r = self.expr(sb["body"], {"$pc": env["$pc"]}, fr)
                    if r is not None and Tm.is_lit(r[0]):
                        return (r[0], env)
                return (mk("static", sp), env)
            if dk in ("Fn", "AssocFn"):
                return (mk("fnref", self.register_callee(c)), env)
            if dk == "ConstParam":
                nm = c.get("path", "").split("::")[-1]
                if nm in fr.tysub:
                    return (fr.tysub[nm], env)
                return (mk("constparam", nm), env)
        if res == "SelfCtor":
            return (mk("ctor", "Self:" + r.get("impl", ""), "SelfCtor"), env)
        return (mk("unknown_path", str(r)[:80]), env)

    def resolve_generic_const(self, c, fr):
        """`F::BIT_SIZE` inside an inlined generic body: substitute the frame's type arguments"""
        if c.get("inst") or not fr.tysub:
            return None
        args = c.get("args") or []
        if args and args[0] in fr.tysub and isinstance(fr.tysub[args[0]], str):
            conc = fr.tysub[args[0]]
            tr = c.get("trait")
            name = c["path"].split("::")[-1]
            return "<%s as %s>::%s" % (conc, tr, name)
        return None

    def register_callee(self, c):
        key = "callee#%d" % len(self.closures)
        self.closures[key] = c
        return key

    def x_Tup(self, e, env, fr):
        r = self.exprs(e["xs"], env, fr)
        if r is None:
            return None
        if not r[0]:
            return (UNIT, r[1])
        return (mk("tuple", *r[0]), r[1])

    def x_Array(self, e, env, fr):
        r = self.exprs(e["xs"], env, fr)
        if r is None:
            return None
        return (mk("array", *r[0]), r[1])

    def x_Repeat(self, e, env, fr):
        r = self.expr(e["x"], env, fr)
        if r is None:
            return None
        m = re.search(r";\s*(\d+)\]$", e["ty"])
        n = int(m.group(1)) if m else None
        if n is None:
            m2 = re.search(r";\s*([A-Za-z_][\w:]*)\]$", e["ty"])
            n = m2.group(1) if m2 else "?"
        return (mk("repeat", r[0], n), r[1])

    def x_Struct(self, e, env, fr):
        names, vals = [], []
        for f in e["fields"]:
            r = self.expr(f["e"], env, fr)
            if r is None:
                return None
            names.append(f["name"])
            vals.append(r[0])
            env = r[1]
        rr = e.get("r", {})
        adt = e.get("adt") or rr.get("path") or "?"
        if adt == "core::ops::RangeFull":
            return (mk("rangefull"), env)
        if "base" in e:
            r = self.expr(e["base"], env, fr)
            if r is None:
                return None
            base, env = r
            a = self.prog.adts.get(adt)
            if a:
                for fd in a["variants"][0]["fields"]:
                    if fd["name"] not in names:
                        names.append(fd["name"])
                        vals.append(field(base, fd["name"]))
        if "Variant" in (rr.get("dk") or ""):
            return (mk("variant_struct", rr.get("path", "").split("::")[-1], tuple(names), *vals), env)
        # canonical field order = declaration order when known
        a = self.prog.adts.get(adt)
        if a and a["variants"]:
            order = [fd["name"] for fd in a["variants"][0]["fields"]]
            if set(order) == set(names):
                d = dict(zip(names, vals))
                names, vals = order, [d[n] for n in order]
        fr.out.effects.append((env["$pc"], "construct", (adt,) + tuple(vals), {"sp": e.get("sp"), "fn": fr.path, "names": tuple(names)}))
        return (mk("struct", adt, tuple(names), *vals), env)

    def x_Field(self, e, env, fr):
        r = self.expr(e["base"], env, fr)
        if r is None:
            return None
        return (field(r[0], e["name"]), r[1])

    def x_Index(self, e, env, fr):
        r = self.exprs([e["base"], e["idx"]], env, fr)
        if r is None:
            return None
        (b, i), env = r
        i = self.full_range(i, b, e["base"])
        n_ = self.length_of(b, e["base"])
        if n_ is not None and i.op == "rangefull":
            self.lengths[b] = n_
        site = {"sp": e.get("sp"), "fn": fr.path, "base_ty": e["base"].get("tya") or e["base"].get("ty"), "mac": e.get("mac")}
        fr.out.effects.append((env["$pc"], "index", (b, i), site))
        return (index(b, i), env)

    def full_range(self, i, b, base_expr):
        """`x[..n]` / `x[0..n]` with n = len(x) is the whole of x"""
        if i.op == "struct" and i.args[0] in ("core::ops::RangeTo", "core::ops::Range"):
            d = dict(zip(i.args[1], i.args[2:]))
            n = self.length_of(b, base_expr)
            st = d.get("start")
            if n is not None and Tm.is_lit(d.get("end")) and d["end"].args[0] == n and (st is None or (Tm.is_lit(st) and st.args[0] == 0)):
                return mk("rangefull")
        return i

    def x_Unary(self, e, env, fr):
        r = self.expr(e["x"], env, fr)
        if r is None:
            return None
        v, env = r
        op = e["op"]
        if "callee" in e and op != "Deref":
            return self.do_call(e["callee"], [v], [e["x"]], e, env, fr)
        if op == "Deref":
            if "callee" in e:
                return self.do_call(e["callee"], [v], [e["x"]], e, env, fr)
            if v.op == "placeref":
                return (self.read_place((v.args[0], list(v.args[1])), env), env)
            return (v, env)
        if op == "Not":
            if e["ty"] == "bool":
                return (not_(v), env)
            return (mk("bnot", v), env)
        if op == "Neg":
            if Tm.is_lit(v):
                return (lit(-v.args[0]), env)
            return (mk("ineg", v), env)
        return (mk("unop", op, v), env)

    BINOPS = {"Add": "iadd", "Sub": "isub", "Mul": "imul", "Div": "idiv", "Rem": "irem", "Shl": "shl", "Shr": "shr",
              "BitAnd": "band", "BitOr": "bor", "BitXor": "bxor"}

    def x_Binary(self, e, env, fr):
        op = e["op"]
        if op in ("And", "Or") and "callee" not in e:
            r = self.expr(e["l"], env, fr)
            if r is None:
                return None
            l, env = r
            if (op == "And" and l is FALSE) or (op == "Or" and l is TRUE):
                return (l, env)
            r = self.expr(e["r"], dict(env), fr)
            if r is None:
                return (l, env)
            rv = r[0]
            return ((and_ if op == "And" else or_)(l, rv), env)
        r = self.exprs([e["l"], e["r"]], env, fr)
        if r is None:
            return None
        (l, rr), env = r
        if "callee" in e:
            return self.do_call(e["callee"], [l, rr], [e["l"], e["r"]], e, env, fr)
        return (self.binop(op, l, rr, e, env, fr), env)

    def binop(self, op, l, r, e, env, fr):
        if op == "Eq":
            return eq(l, r)
        if op == "Ne":
            return ne(l, r)
        if op in ("Lt", "Le", "Gt", "Ge"):
            return Tm.cmp(op.lower(), l, r)
        if op in self.BINOPS:
            if op in ("Div", "Rem"):
                fr.out.effects.append((env["$pc"], "intdiv", (l, r), {"sp": e.get("sp"), "fn": fr.path}))
            lt = (e.get("l") or {}).get("ty") if isinstance(e.get("l"), dict) else None
            if lt == "bool" and op in ("BitAnd", "BitOr"):
                return (and_ if op == "BitAnd" else or_)(l, r)
            if op == "BitAnd" and lt in ("u8", "u16", "u32", "u64"):
                # a mask of the top bits of the type keeps exactly what `(x >> k) << k` keeps: one canonical form for "the high bits of x"
                w_ = int(lt[1:])
                for x_, m_ in ((l, r), (r, l)):
                    if Tm.is_lit(m_) and isinstance(m_.args[0], int) and not isinstance(m_.args[0], bool) and 0 < m_.args[0] < (1 << w_):
                        mv = m_.args[0]
                        k_ = (mv & -mv).bit_length() - 1
                        if k_ > 0 and mv == ((1 << w_) - 1) ^ ((1 << k_) - 1):
                            return Tm.intop("shl", Tm.intop("shr", x_, lit(k_)), lit(k_))
            return Tm.intop(self.BINOPS[op], l, r)
        return mk("binop", op, l, r)

    def x_Assign(self, e, env, fr):
        r = self.expr(e["r"], env, fr)
        if r is None:
            return None
        v, env = r
        pl = self.place(e["l"], env, fr)
        if pl is None:
            self.note(fr, "assignment to unmodelled place", e)
        else:
            self.write_place(pl, v, env)
            if self.through_refcell(e["l"]):
                fr.out.effects.append((env["$pc"], "lazy_store", (v,), {"sp": e.get("sp"), "fn": fr.path}))
        return (UNIT, env)

    def through_refcell(self, e):
        while isinstance(e, dict):
            if e.get("k") == "MethodCall" and e.get("name") == "borrow_mut":
                return True
            if e.get("k") in ("Unary", "Paren", "AddrOf"):
                e = e.get("x")
            elif e.get("k") in ("Field", "Index"):
                e = e.get("base")
            else:
                return False
        return False

    def x_AssignOp(self, e, env, fr):
        r = self.exprs([e["l"], e["r"]], env, fr)
        if r is None:
            return None
        (l, rv), env = r
        pl = self.place(e["l"], env, fr)
        if "callee" in e:
            rr = self.do_call(e["callee"], [l, rv], [e["l"], e["r"]], e, env, fr)
            return rr
        op = e["op"].replace("Assign", "")
        v = self.binop(op, l, rv, e, env, fr)
        if pl is not None:
            self.write_place(pl, v, env)
        else:
            self.note(fr, "op-assign to unmodelled place", e)
        return (UNIT, env)

    def x_Block(self, e, env, fr):
        return self.block(e["body"], env, fr)

    def block(self, b, env, fr):
        for s in b["stmts"]:
            k = s["k"]
            if k == "Let":
                if "init" in s:
                    r = self.expr(s["init"], env, fr)
                    if r is None:
                        return None
                    v, env = r
                    if "els" in s:
                        env2 = dict(env)
                        c = self.pat_test(s["pat"], v, env2, fr)
                        if c is not TRUE:
                            e3 = dict(env)
                            e3["$pc"] = e3["$pc"] + (not_(c),)
                            self.block(s["els"], e3, fr)
                            env2["$pc"] = env2["$pc"] + (c,)
                        env = env2
                    else:
                        self.bind(s["pat"], v, env, fr)
                else:
                    self.bind_undef(s["pat"], env)
            elif k in ("Expr", "Semi"):
                r = self.expr(s["e"], env, fr)
                if r is None:
                    return None
                env = r[1]
        if "expr" in b:
            return self.expr(b["expr"], env, fr)
        return (UNIT, env)

    def bind_undef(self, p, env):
        if p.get("k") == "Bind":
            env[p["id"]] = mk("undef", p.get("name", "?"))

    def merge(self, c, a, b):
        """a, b: (value, env) or None; returns merged (value, env) or None"""
        if a is None and b is None:
            return None
        if a is None:
            return b
        if b is None:
            return a
        (va, ea), (vb, eb) = a, b
        env = {}
        for k2 in set(ea) | set(eb):
            if k2 == "$pc":
                continue
            x, y = ea.get(k2), eb.get(k2)
            if x is None or y is None:
                env[k2] = x if x is not None else y
            else:
                env[k2] = x if x is y else ite(c, x, y)
        pa, pb = ea["$pc"], eb["$pc"]
        n = 0
        while n < len(pa) and n < len(pb) and pa[n] is pb[n]:
            n += 1
        ra, rb = Tm.conj(pa[n:]), Tm.conj(pb[n:])
        extra = or_(ra, rb)
        env["$pc"] = pa[:n] + ((extra,) if extra is not TRUE else ())
        return (va if va is vb else ite(c, va, vb), env)

    def x_If(self, e, env, fr):
        if any(mname.startswith("debug_assert") for mname in e.get("mac", [])):
            fr.out.panics.append((env["$pc"], {"sp": e.get("sp"), "fn": fr.path, "kind": "debug_assert", "debug_only": True}))
            return (UNIT, env)
        ce = e["c"]
        # `if let PAT = x`
        if ce["k"] == "Let":
            r = self.expr(ce["init"], env, fr)
            if r is None:
                return None
            v, env = r
            et = dict(env)
            c = self.pat_test(ce["pat"], v, et, fr)
        else:
            r = self.expr(ce, env, fr)
            if r is None:
                return None
            c, env = r
            et = dict(env)
        if c is TRUE:
            return self.expr(e["t"], et, fr)
        if c is FALSE:
            if "e" in e:
                return self.expr(e["e"], env, fr)
            return (UNIT, env)
        et["$pc"] = et["$pc"] + (c,)
        ee = dict(env)
        ee["$pc"] = ee["$pc"] + (not_(c),)
        a = self.expr(e["t"], et, fr)
        b = self.expr(e["e"], ee, fr) if "e" in e else (UNIT, ee)
        return self.merge(c, a, b)

    def x_Match(self, e, env, fr):
        src = e.get("src", "")
        if src.startswith("TryDesugar"):
            return self.try_op(e, env, fr)
        if src.startswith("ForLoopDesugar"):
            return self.for_loop(e, env, fr)
        r = self.expr(e["s"], env, fr)
        if r is None:
            return None
        s, env = r
        results = []   # (cond, (val, env) | None)
        remaining = TRUE
        for arm in e["arms"]:
            ea = dict(env)
            c = self.pat_test(arm["pat"], s, ea, fr)
            if "guard" in arm:
                g = self.expr(arm["guard"], ea, fr)
                if g is not None:
                    c = and_(c, g[0])
            c_eff = and_(remaining, c) if remaining is not TRUE else c
            if c_eff is FALSE:
                continue
            ea["$pc"] = ea["$pc"] + ((c,) if c is not TRUE else ())
            n_rets = len(fr.rets)
            res = self.expr(arm["body"], ea, fr)
            if res is None and remaining is not TRUE and len(fr.rets) > n_rets:
                # an arm that leaves the function is only reached when no earlier arm matched: say so in the path condition of its returns
                # (the value flows are first-match ordered; a later arm's `return` must not look unconditional)
                base = len(env["$pc"])
                negs = tuple(not_(c_) for c_, _ in results)
                for k_ in range(n_rets, len(fr.rets)):
                    pc_, v_, e_ = fr.rets[k_]
                    fr.rets[k_] = (tuple(pc_[:base]) + negs + tuple(pc_[base:]), v_, e_)
            results.append((c, res))
            remaining = and_(remaining, not_(c))
            if c is TRUE or remaining is FALSE:
                break
        # fold from the last arm backwards
        acc = None
        first = True
        for c, res in reversed(results):
            if first:
                acc = res
                first = False
            else:
                acc = self.merge(c, res, acc)
        if acc is not None:
            # drop the arm conditions from the pc again when every arm continues (they are exhaustive)
            if all(res is not None for _, res in results):
                v, en = acc
                en = dict(en)
                en["$pc"] = env["$pc"] + tuple(x for x in en["$pc"][len(env["$pc"]):] if False)
                acc = (v, en)
        return acc

    def try_op(self, e, env, fr):
        # match Try::branch(x) { Continue(v) => v, Break(r) => return from_residual(r) }
        s = e["s"]
        inner = s["args"][0] if s.get("k") == "Call" and s.get("args") else s
        r = self.expr(inner, env, fr)
        if r is None:
            return None
        x, env = r
        ty = strip_ref(inner.get("tya") or inner.get("ty") or "")
        if ty.startswith("core::option::Option"):
            okv, errc, errv = "Some", is_variant(x, "None"), variant("None")
        else:
            okv, errc = "Ok", is_variant(x, "Err")
            errv = variant("Err", mk("from_err", payload(x, "Err", 0)))
            pe = payload(x, "Err", 0)
            if pe.op in ("variant",):
                errv = variant("Err", pe)
        if errc is not FALSE:
            fr.rets.append((env["$pc"] + (errc,), errv, dict(env)))
            fr.out.effects.append((env["$pc"], "try", (x, errc), {"sp": e.get("sp"), "fn": fr.path}))
            if errc is TRUE:
                return None
            env = dict(env)
            env["$pc"] = env["$pc"] + (not_(errc),)
        return (payload(x, okv, 0), env)

    def x_Ret(self, e, env, fr):
        if "x" in e:
            r = self.expr(e["x"], env, fr)
            if r is None:
                return None
            v, env = r
        else:
            v = UNIT
        fr.rets.append((env["$pc"], v, dict(env)))
        return None

    def x_Break(self, e, env, fr):
        val = None
        for k_ in ("x", "e", "value"):
            if isinstance(e.get(k_), dict):
                r = self.expr(e[k_], env, fr)
                if r is None:
                    return None
                val, env = r
                break
        if fr.loops:
            b = dict(env)
            if val is not None:
                b["$break_value"] = val
            fr.loops[-1]["brk"].append(b)
        return None

    def x_Continue(self, e, env, fr):
        if fr.loops:
            fr.loops[-1]["cont"].append(dict(env))
        return None

    def x_Let(self, e, env, fr):
        # bare `let` expression used as a condition in && chains
        r = self.expr(e["init"], env, fr)
        if r is None:
            return None
        v, env = r
        c = self.pat_test(e["pat"], v, env, fr)
        return (c, env)

    def x_Closure(self, e, env, fr):
        key = "closure#%d" % len(self.closures)
        self.closures[key] = Closure(e["params"], e["body"], dict(env), fr)
        return (mk("closure", key), env)

    def x_ConstBlock(self, e, env, fr):
        return (mk("unknown", "constblock"), env)

    def unroll_concrete_loop(self, e, env, fr, limit=64):
        """`while` / `loop` whose exit test is decided by concrete values in every iteration (a counter over a constant range):
        executed iteration by iteration.  Returns the exit environment, or None (with every recorded fact rolled back) when an
        iteration's exit test is not concrete, the bound is exceeded, or the body returns / continues."""
        o = fr.out
        marks = (len(o.effects), len(o.panics), len(o.unmodelled), len(o.calls), len(fr.rets))
        cur = dict(env)
        ok = False
        if limit > UNROLL_MAX and self.has_inner_loop(e["body"]) and not self.plain_integer_code(e["body"]):
            limit = UNROLL_MAX      # a loop nest over non-integer state is summarised (one iteration's state transformer), not executed
        for _ in range(limit):
            fr.loops.append({"brk": [], "cont": []})
            try:
                res = self.block(e["body"], dict(cur), fr)
            finally:
                lp = fr.loops.pop()
            if len(fr.rets) != marks[4] or lp["cont"]:
                break
            if res is None and len(lp["brk"]) == 1 and lp["brk"][0].get("$pc") == cur.get("$pc"):
                cur = lp["brk"][0]
                ok = True
                break
            if res is not None and not lp["brk"]:
                cur = res[1]
                continue
            break
        if not ok:
            del o.effects[marks[0]:], o.panics[marks[1]:], o.unmodelled[marks[2]:], o.calls[marks[3]:], fr.rets[marks[4]:]
            return None
        return cur

    def x_Loop(self, e, env, fr):
        done = self.unroll_concrete_loop(e, env, fr)
        if done is not None:
            return (UNIT, done)
        # `loop`/`while`: not summarised; havoc everything assigned inside
        self.note(fr, "unmodelled loop (%s)" % e.get("src"), e)
        entry_env = env
        env = dict(env)
        for lid in sorted(self.assigned_locals(e["body"]), key=str):
            if lid in env:
                env[lid] = self.fresh("loop")
        # interpret the body once on the havocked state: its calls, effects and panic sites are still facts
        fr.loops.append({"brk": [], "cont": []})
        saved = fr.rets
        fr.rets = []
        try:
            once = self.block(e["body"], dict(env), fr)
            # the state transformer of one iteration, for rules that reason about the loop: for every carried local its value
            # on entry, its arbitrary-iteration symbol, and its value after one pass of the body (None if the body does not fall through)
            ids = [lid for lid in sorted(self.assigned_locals(e["body"]), key=str) if lid in entry_env]
            fr.out.effects.append((entry_env["$pc"], "while_state",
                                   (tuple(entry_env[i] for i in ids), tuple(env[i] for i in ids), tuple((once[1].get(i, env[i]) if once is not None else None) for i in ids)),
                                   {"sp": e.get("sp"), "fn": fr.path, "ids": tuple(ids), "pc_after": tuple(once[1]["$pc"]) if once is not None else None}))
        finally:
            inner_rets = fr.rets
            fr.rets = saved
            lp_ = fr.loops.pop()
        if e.get("src") == "Loop" and not lp_["brk"] and inner_rets:
            # `loop { .. return x .. }` without break: the only way out is one of the returns (of some iteration,
            # evaluated on the havocked state)
            for pc_, v_, _env in inner_rets:
                fr.out.effects.append((pc_, "loop_return", (v_,), {"sp": e.get("sp"), "fn": fr.path}))
            fr.rets = saved + inner_rets
            return None
        for pc_, v_, _env in inner_rets:
            fr.out.effects.append((pc_, "loop_return", (v_,), {"sp": e.get("sp"), "fn": fr.path}))
        if inner_rets:
            self.note(fr, "return inside an unmodelled loop", e)
        # `loop { .. break value .. }`: the loop's value is the value of the break that ends it (of some iteration, on the havocked state)
        bvals = [(b_.get("$pc", ()), b_["$break_value"]) for b_ in lp_["brk"] if "$break_value" in b_]
        if bvals:
            for pc_, v_ in bvals:
                fr.out.effects.append((pc_, "loop_return", (v_,), {"sp": e.get("sp"), "fn": fr.path}))
            return (self.assemble(bvals), env)
        return (UNIT, env)

    def has_inner_loop(self, node):
        if isinstance(node, dict):
            if node.get("k") == "Loop" or (node.get("k") == "Match" and str(node.get("src", "")).startswith("ForLoop")):
                return True
            return any(self.has_inner_loop(v) for v in node.values())
        if isinstance(node, list):
            return any(self.has_inner_loop(v) for v in node)
        return False

    def plain_integer_code(self, node):
        """no calls or overloaded operators other than core integer / conversion / slice / array primitives"""
        if isinstance(node, dict):
            c = node.get("callee")
            if isinstance(c, dict):
                pth = c.get("path", "")
                if not re.match(r"core::(num|convert|slice|array|ops::index|ops::bit|ops::arith|cmp|iter|mem|clone)\b", pth):
                    return False
                inst = c.get("inst") or {}
                if inst.get("local"):
                    return False
            if node.get("k") == "Call":
                f = node.get("f") or {}
                r = f.get("r") or {}
                if r.get("res") == "Def" and not str((r.get("callee") or {}).get("path", "core::")).startswith("core::") and not str(r.get("dk", "")).startswith("Ctor"):
                    return False
            return all(self.plain_integer_code(v) for v in node.values())
        if isinstance(node, list):
            return all(self.plain_integer_code(v) for v in node)
        return True

    def assigned_locals(self, node, acc=None):
        if acc is None:
            acc = set()
        if isinstance(node, dict):
            if node.get("k") in ("Assign", "AssignOp"):
                pl = self.static_root(node["l"])
                if pl is not None:
                    acc.add(pl)
            if node.get("k") in ("MethodCall", "Call"):
                for a in ([node.get("recv")] if node.get("recv") else []) + node.get("args", []):
                    if isinstance(a, dict):
                        t = a.get("tya") or a.get("ty") or ""
                        if a.get("k") == "AddrOf" and a.get("mut"):
                            pl = self.static_root(a["x"])
                            if pl is not None:
                                acc.add(pl)
                        elif t.startswith("&mut") or (a.get("adj") and any(x["ty"].startswith("&mut") for x in a["adj"])):
                            pl = self.static_root(a)
                            if pl is not None:
                                acc.add(pl)
            for v in node.values():
                self.assigned_locals(v, acc)
        elif isinstance(node, list):
            for v in node:
                self.assigned_locals(v, acc)
        return acc

    def static_root(self, e):
        while isinstance(e, dict):
            k = e.get("k")
            if k == "Path":
                return e["r"]["id"] if e["r"].get("res") == "Local" else None
            if k in ("Field", "Index"):
                e = e["base"]
            elif k in ("Paren", "AddrOf", "Unary"):
                e = e["x"]
            elif k == "MethodCall":
                e = e["recv"]
            else:
                return None
        return None

    # ---- for loops ---------------------------------------------------------------------------
    def for_loop(self, e, env, fr):
        # match into_iter(ITER) { mut iter => loop { match next(&mut iter) { None => break, Some(PAT) => BODY } } }
        try:
            it_expr = e["s"]["args"][0]
            loop = e["arms"][0]["body"]
            inner = loop["body"]["expr"] if "expr" in loop["body"] else loop["body"]["stmts"][0]["e"]
            some_arm = [a for a in inner["arms"] if a["pat"].get("k") in ("TupleStruct", "Struct")
                        and (a["pat"].get("r", {}).get("path", "")).endswith("Some")][0]
            sp_ = some_arm["pat"]
            pat = sp_["ps"][0] if sp_["k"] == "TupleStruct" else sp_["fields"][0]["pat"]
            body = some_arm["body"]
        except (KeyError, IndexError):
            self.note(fr, "for-loop desugaring not recognised", e)
            return (UNIT, env)
        r = self.expr(it_expr, env, fr)
        if r is None:
            return None
        it, env = r
        self.cur_env = env
        seq = self.S.concrete_seq(self, it)
        lim = self.opts.get("unroll_max", UNROLL_MAX)
        if seq is not None and lim < len(seq) <= 64 and self.plain_integer_code(body):
            lim = 64        # byte / limb plumbing over a constant range: primitive integer and array code only, cheap and exact to unroll
        if seq is not None and len(seq) <= lim:
            cur = env
            for item in seq:
                fr.loops.append({"brk": [], "cont": []})
                eb = dict(cur)
                self.bind(pat, item, eb, fr)
                res = self.expr(body, eb, fr)
                lp = fr.loops.pop()
                if lp["brk"]:
                    self.note(fr, "break inside unrolled loop not modelled", e)
                # the next iteration starts from wherever this one fell through or said `continue`
                nxt = ([res[1]] if res is not None else []) + list(lp["cont"])
                if not nxt:
                    return None          # every path of the body left the function
                if len(nxt) == 1:
                    cur = {k: v for k, v in nxt[0].items() if k in cur or k == "$pc"}
                else:
                    pcs = [tuple(e_["$pc"]) for e_ in nxt]
                    n_ = 0
                    while all(len(pc_) > n_ and pc_[n_] is pcs[0][n_] for pc_ in pcs):
                        n_ += 1
                    merged = {"$pc": pcs[0][:n_]}
                    for k in cur:
                        if k == "$pc":
                            continue
                        vals = [(pc_, e_.get(k, cur[k])) for pc_, e_ in zip(pcs, nxt)]
                        merged[k] = vals[0][1] if all(v_ is vals[0][1] for _, v_ in vals) else self.assemble(vals)
                    cur = merged
            return (UNIT, cur)
        cp = self.copy_loop(it, pat, body, env)
        if cp is not None:
            return (UNIT, cp)
        # symbolic fold over the iterator
        muts = [t for t in Tm.subterms(it) if t.op == "iter_mut"]
        if muts:
            # the items are mutable references into a buffer and the number of iterations is not known: whatever the body
            # writes through them is not representable here - say so and forget the buffer's contents
            self.note(fr, "mutable iteration of unknown length: writes through the items are not modelled", e)
            env = dict(env)
            for t in muts:
                if t.args[0].op == "placeref" and t.args[0].args[0] in env:
                    env[t.args[0].args[0]] = self.fresh("havoc")
        written = sorted(x for x in self.assigned_locals(body) if x in env)
        names = tuple(str(x) for x in written)
        item = self.fresh("item")
        syms = {w: self.fresh("acc_%s" % w) for w in written}
        eb = dict(env)
        for w in written:
            eb[w] = syms[w]
        self.bind(pat, item, eb, fr)
        n_eff = len(fr.out.effects)
        n_ret = len(fr.rets)
        fr.loops.append({"brk": [], "cont": []})
        res = self.expr(body, eb, fr)
        lp = fr.loops.pop()
        if len(fr.rets) != n_ret or lp["brk"] or lp["cont"]:
            self.note(fr, "early exit inside symbolic loop not modelled", e)
        nexts = tuple((res[1].get(w, syms[w]) if res is not None else syms[w]) for w in written)
        inits = tuple(env[w] for w in written)
        fold = mk("fold", it, item, tuple(syms[w] for w in written), inits, nexts)
        fr.out.effects.append((env["$pc"], "loop", (fold,), {"sp": e.get("sp"), "fn": fr.path, "names": names,
                                                             "effects_in_body": len(fr.out.effects) - n_eff}))
        env = dict(env)
        for i, w in enumerate(written):
            env[w] = mk("proj", fold, i)
        return (UNIT, env)

    def max_len(self, t):
        """an upper bound on the length of a slice-valued term, when one is known"""
        n = self.length_of(t)
        if n is not None:
            return n
        if t.op in ("rev", "iter"):
            return self.max_len(t.args[0])
        if t.op == "item_of" and t.args[0].op in ("chunks", "rchunks", "chunks_exact") and Tm.is_lit(t.args[0].args[1]):
            return t.args[0].args[1].args[0]
        return None

    def copy_loop(self, it, pat, body, env):
        """`for (d, s) in BUF.iter_mut().zip(SRC) { *d = *s }` with len(SRC) <= len(BUF): the hand-written
        `BUF[..SRC.len()].copy_from_slice(SRC)`.  Returns the environment after the loop, or None if this is not that idiom."""
        if it.op != "zip" or pat.get("k") != "Tuple" or len(pat.get("ps", [])) != 2 or any(p.get("k") != "Bind" for p in pat["ps"]):
            return None
        sides = list(it.args[:2])
        mi = [i for i in (0, 1) if sides[i].op == "iter_mut" and sides[i].args[0].op == "placeref"]
        if len(mi) != 1:
            return None
        mi = mi[0]
        d_id, s_id = pat["ps"][mi]["id"], pat["ps"][1 - mi]["id"]
        b = body
        while isinstance(b, dict) and b.get("k") == "Block" and not b["body"].get("expr") and len(b["body"]["stmts"]) == 1 and b["body"]["stmts"][0]["k"] in ("Semi", "Expr"):
            b = b["body"]["stmts"][0]["e"]
        if not (isinstance(b, dict) and b.get("k") == "Assign"):
            return None

        def is_local(e, lid, deref):
            if deref:
                if not (e.get("k") == "Unary" and e.get("op") == "Deref"):
                    return False
                e = e["x"]
            return e.get("k") == "Path" and e.get("r", {}).get("res") == "Local" and e["r"].get("id") == lid
        src_is_ref = (pat["ps"][1 - mi].get("ty") or "").startswith("&")
        if not (is_local(b["l"], d_id, True) and is_local(b["r"], s_id, src_is_ref)):
            return None
        src = sides[1 - mi]
        while src.op == "iter":
            src = src.args[0]
        if src.op == "rev" and src.args[0].op == "iter":
            src = mk("rev", src.args[0].args[0])
        pr = sides[mi].args[0]
        self.cur_env = env
        n_buf, n_src = self.length_of_place(pr), self.max_len(src)
        if n_buf is None or n_src is None or n_src > n_buf:
            return None
        ln = mk("len", src.args[0] if src.op == "rev" else src)
        env = dict(env)
        pl = (pr.args[0], list(pr.args[1]))
        cur = self.read_place(pl, env)
        self.write_place(pl, store(cur, mk("struct", "core::ops::RangeTo", ("end",), ln), src), env)
        return env

    # ---- calls -------------------------------------------------------------------------------
    def x_Call(self, e, env, fr):
        f = e["f"]
        # path to a function / ctor?
        if f["k"] == "Path" and f["r"].get("res") in ("Def", "SelfCtor"):
            r = f["r"]
            dk = r.get("dk", "")
            c = r.get("callee", {})
            rr = self.exprs(e["args"], env, fr)
            if rr is None:
                return None
            args, env = rr
            if dk.startswith("Ctor") or r.get("res") == "SelfCtor":
                return (self.ctor(r, args, e, env, fr), env)
            return self.do_call(c, args, e["args"], e, env, fr)
        # call of a value (closure / fn pointer)
        r = self.expr(f, env, fr)
        if r is None:
            return None
        fv, env = r
        rr = self.exprs(e["args"], env, fr)
        if rr is None:
            return None
        args, env = rr
        return self.apply_fn(fv, args, e, env, fr)

    def ctor(self, r, args, e, env, fr):
        c = r.get("callee", {})
        path = c.get("path", "") if r.get("res") == "Def" else ""
        vn = path.split("::")[-1]
        dk = r.get("dk", "")
        if "Variant" in dk:
            return variant(vn, *args)
        # tuple struct constructor
        adt = None
        if r.get("res") == "SelfCtor":
            ty = strip_ref(e.get("ty", ""))
            adt = ty
        else:
            adt = c.get("parent") or path
            ty = strip_ref(e.get("ty", ""))
            if ty:
                adt = re.sub(r"<.*$", "", ty) if ty.split("<")[0].endswith(vn) else adt
        names = tuple(str(i) for i in range(len(args)))
        fr.out.effects.append((env["$pc"], "construct", (adt,) + tuple(args), {"sp": e.get("sp"), "fn": fr.path, "names": names}))
        return mk("struct", adt, names, *args)

    def apply_fn(self, fv, args, e, env, fr):
        if fv.op == "closure":
            cl = self.closures[fv.args[0]]
            ec = dict(cl.env)
            ec["$pc"] = env["$pc"]
            for p, a in zip(cl.params, args):
                self.bind(p, a, ec, fr)
            saved = fr.rets
            fr.rets = []
            ec0 = dict(ec)
            res = self.expr(cl.body, ec, fr)
            flows = [(pc, v) for pc, v, _ in fr.rets]
            fr.rets = saved
            if res is not None:
                flows.append((res[1]["$pc"], res[0]))
                # writes to captured places (a `move` / FnMut closure assigning through a captured `&mut`) are visible to the caller
                changed = {k: v for k, v in res[1].items() if k != "$pc" and k in cl.env and v is not ec0.get(k)}
                if changed:
                    env = dict(env)
                    env.update(changed)
            if not flows:
                return None
            return (self.assemble(flows), env)
        if fv.op == "fnref":
            c = self.closures[fv.args[0]]
            # a call through a function value `op(&mut out, &a)`: the argument expressions (and so the places an `&mut` argument names) are the call's own
            ax = e.get("args") if isinstance(e, dict) and e.get("k") == "Call" and len(e.get("args") or []) == len(args) else None
            return self.do_call(c, args, ax or [None] * len(args), e, env, fr)
        if fv.op == "ctor":
            r = {"res": "Def", "dk": fv.args[1], "callee": {"path": fv.args[0]}}
            return (self.ctor(r, args, e, env, fr), env)
        if fv.op == "const_closure":
            return (variant("Ok", fv.args[0]), env)
        return (mk("apply", fv, *args), env)

    def x_MethodCall(self, e, env, fr):
        rr = self.exprs([e["recv"]] + e["args"], env, fr)
        if rr is None:
            return None
        args, env = rr
        c = e.get("callee")
        if c is None:
            self.note(fr, "method call without resolution: %s" % e.get("name"), e)
            return (mk("call", "?" + e.get("name", ""), *args), env)
        return self.do_call(c, args, [e["recv"]] + e["args"], e, env, fr)

    def do_call(self, c, args, arg_exprs, e, env, fr):
        """c: callee record; returns (value, env) or None"""
        inst = c.get("inst")
        key = (inst or {}).get("path") or c.get("path")
        site = {"sp": e.get("sp") if isinstance(e, dict) else None, "fn": fr.path, "mac": e.get("mac") if isinstance(e, dict) else None}
        fr.out.calls.append((key, c.get("path"), site))
        # inside an inlined generic body the callee may only be resolvable with the frame's type arguments
        if inst is None and fr.tysub:
            k2 = self.resolve_with_tysub(c, fr)
            if k2 is not None:
                key = k2
        places = [self.place(x, env, fr) if isinstance(x, dict) else None for x in arg_exprs]
        self.cur_env = env
        # a summary sees the VALUE behind a reference into a buffer (an item of iter_mut(), a reborrow of one); where it writes is in `places`
        sargs = [self.read_place((a_.args[0], list(a_.args[1])), env) if isinstance(a_, T) and a_.op == "placeref" else a_ for a_ in args]
        ctx = CallCtx(self, c, key, sargs, arg_exprs, places, e, env, fr, site)
        r = self.S.summarize(ctx)
        if r is not NotImplemented:
            if r is None:
                return None
            return (r, ctx.env)
        b = self.prog.body(key)
        if b is not None and fr.depth < self.opts.get("max_depth", MAX_DEPTH) and key not in self.stack:
            return self.inline(b, key, c, args, places, e, env, fr)
        # uninterpreted
        v = mk("call", key, *args)
        env = ctx.env
        for i, (pl, ax) in enumerate(zip(places, arg_exprs)):
            if pl is not None and isinstance(ax, dict) and self.is_mut_ref(ax):
                self.write_place(pl, mk("out", v, i), env)
        if not self.S.is_benign_opaque(key):
            self.note(fr, "unmodelled callee %s" % key, e if isinstance(e, dict) else None)
        return (v, env)

    def resolve_with_tysub(self, c, fr):
        args = c.get("args") or []
        if not args:
            return None
        a0 = args[0]
        conc = fr.tysub.get(a0)
        if isinstance(conc, str) and c.get("trait"):
            name = c["path"].split("::")[-1]
            # local impl?
            for (tr, st), im in self.prog.impl_index.items():
                if st == strip_lt(conc) and tr.split("<")[0] == c["trait"]:
                    for it in im["items"]:
                        if it["name"] == name:
                            return it["path"]
            return "<%s as %s>::%s" % (conc, c["trait"], name)
        return None

    def is_mut_ref(self, ax):
        t = ax.get("tya") or ax.get("ty") or ""
        if ax.get("k") == "AddrOf":
            return bool(ax.get("mut"))
        if ax.get("adj"):
            return ax["adj"][-1]["ty"].startswith("&mut")
        return t.startswith("&mut")

    def inline(self, b, key, c, args, places, e, env, fr):
        VISITED.add(key)
        f2 = Frame(key, fr.depth + 1, fr.out)
        # generic substitution: names of the callee's generics -> concrete argument strings
        gen = b.get("all_generics")
        cargs = (c.get("inst") or {}).get("args") or c.get("args") or []
        if gen and len(gen) == len(cargs):
            for g, a in zip(gen, cargs):
                if re.fullmatch(r"\d+", a):
                    f2.tysub[g] = lit(int(a))
                elif a in ("true", "false"):
                    f2.tysub[g] = TRUE if a == "true" else FALSE
                else:
                    f2.tysub[g] = fr.tysub.get(a, a) if isinstance(fr.tysub.get(a, a), str) else a
        self.stack.append(key)
        try:
            saved_pc = env["$pc"]
            val, outs = self.apply_body_in(b, args, f2, saved_pc)
        finally:
            self.stack.pop()
        env = dict(env)
        for i, t in outs.items():
            if i < len(places) and places[i] is not None:
                self.write_place(places[i], t, env)
        if val.op == "bottom":
            return None
        return (val, env)

    def apply_body_in(self, b, args, f2, pc):
        env = {"$pc": pc}
        for p, a in zip(b.get("params", []), args):
            self.bind(p, a, env, f2)
        r = self.expr(b["body"], env, f2)
        flows = list(f2.rets)
        if r is not None:
            flows.append((r[1]["$pc"], r[0], r[1]))
        if not flows:
            return mk("bottom"), {}
        val = self.assemble([(pcx[len(pc):], v) for pcx, v, _ in flows])
        outs = {}
        for i, p in enumerate(b.get("params", [])):
            if p.get("k") == "Bind" and re.match(r"&('\w+ )?mut ", p.get("ty", "")):
                lid = p["id"]
                outs[i] = self.assemble([(pcx[len(pc):], en.get(lid, mk("bottom"))) for pcx, v, en in flows])
            elif p.get("k") == "Bind" and p.get("ty", "").lstrip().startswith("&") and i < len(args):
                # shared reference: the referent can still change through interior mutability (RefCell::borrow_mut stores)
                lid = p["id"]
                if any(en.get(lid) is not None and en.get(lid) is not args[i] for pcx, v, en in flows):
                    outs[i] = self.assemble([(pcx[len(pc):], en.get(lid, args[i])) for pcx, v, en in flows])
        return val, outs


class CallCtx:
    def __init__(self, interp, c, key, args, arg_exprs, places, e, env, fr, site):
        self.I, self.c, self.key, self.args, self.arg_exprs, self.places = interp, c, key, args, arg_exprs, places
        self.e, self.env, self.fr, self.site = e, env, fr, site

    @property
    def tpath(self):
        return self.c.get("path", "")

    @property
    def targs(self):
        return self.c.get("args") or []

    def arg_ty(self, i):
        x = self.arg_exprs[i] if i < len(self.arg_exprs) else None
        if isinstance(x, dict):
            return strip_ref(x.get("tya") or x.get("ty") or "")
        return ""

    def ret_ty(self):
        return strip_ref(self.e.get("ty", "")) if isinstance(self.e, dict) else ""

    def write(self, i, val):
        """write val through the i-th argument (a &mut place)"""
        pl = self.places[i] if i < len(self.places) else None
        if pl is None:
            self.I.note(self.fr, "write through unmodelled place in call to %s" % self.key, self.e if isinstance(self.e, dict) else None)
            return
        self.env = dict(self.env)
        self.I.write_place(pl, val, self.env)

    def effect(self, kind, *args):
        self.fr.out.effects.append((self.env["$pc"], kind, tuple(args), self.site))

    def panic(self, cond, kind):
        if cond is FALSE:
            return
        pc = self.env["$pc"] + ((cond,) if cond is not TRUE else ())
        self.fr.out.panics.append((pc, dict(self.site, kind=kind, callee=self.key)))
