"""Lazy / plain statics of ark_curve::constants: their initialiser terms (from the engine) are constant-folded
in Python and compared with their defining relations.  Constant folding of closed terms is not execution of
decaf377 code: every operation folded is a ring operation on literals."""
from . import terms as Tm, consts as K, engine as E, summaries as S
from .terms import mk


class NotConst(Exception):
    pass


def fold(t):
    """closed term -> python int (integers / bigints) or ('F', field, int) for field elements"""
    op = t.op
    if op == "lit":
        return t.args[0]
    if op == "bool":
        return t.args[0]
    if op == "felem":
        return ("F", t.args[0], t.args[1])
    if op == "struct" and t.args[0].endswith("BigInt"):
        return fold(t.args[2])
    if op == "array":
        vals = [fold(x) for x in t.args]
        if all(isinstance(v, int) for v in vals):
            return K.limbs_to_int(vals, 64)
        raise NotConst("array of non-integers")
    if op in ("canon_int", "canon_limbs"):
        v = fold(t.args[0])
        if isinstance(v, tuple):
            return v[2]
        raise NotConst("canon_int of non-element")
    if op == "bigint_of":
        return fold(t.args[0])
    if op == "bigint_le_bytes":
        return ("BYTES", fold(t.args[0]))
    if op in ("from_le_bytes_mod_order",):
        v = fold(t.args[1])
        if isinstance(v, tuple) and v[0] == "BYTES":
            return ("F", t.args[0], v[1] % K.MODULI[t.args[0]])
        raise NotConst("bytes")
    if op == "pow":
        b, e = fold(t.args[0]), fold(t.args[1])
        if isinstance(b, tuple) and b[0] == "F" and isinstance(e, int):
            return ("F", b[1], pow(b[2], e, K.MODULI[b[1]]))
        raise NotConst("pow")
    if op in ("add", "sub", "mul"):
        a, b = fold(t.args[0]), fold(t.args[1])
        if isinstance(a, tuple) and isinstance(b, tuple) and a[1] == b[1]:
            p = K.MODULI[a[1]]
            return ("F", a[1], {"add": a[2] + b[2], "sub": a[2] - b[2], "mul": a[2] * b[2]}[op] % p)
        raise NotConst(op)
    if op == "neg":
        a = fold(t.args[0])
        return ("F", a[1], (-a[2]) % K.MODULI[a[1]])
    if op == "inv":
        a = fold(t.args[0])
        return ("F", a[1], pow(a[2], -1, K.MODULI[a[1]]))
    if op in ("iadd", "isub", "imul", "shl", "shr"):
        a, b = fold(t.args[0]), fold(t.args[1])
        return {"iadd": a + b, "isub": a - b, "imul": a * b, "shl": a << b, "shr": a >> b}[op]
    if op == "convert":
        return fold(t.args[2])
    raise NotConst("cannot fold %s" % Tm.show(t, maxdepth=3))


def eval_static(prog, path):
    """returns (value, effects, unmodelled) of a static's initialiser"""
    b = prog.body(path)
    if b is None:
        return None, [], ["no body"]
    I = E.Interp(prog, S.Summaries())
    out = E.Outcome()
    fr = E.Frame(path, 0, out)
    r = I.expr(b["body"], {"$pc": ()}, fr)
    v = r[0] if r is not None else mk("bottom")
    if v.op == "lazy":
        rr = I.apply_fn(v.args[0], [], b["body"], {"$pc": ()}, fr)
        v = rr[0] if rr is not None else mk("bottom")
    return v, out.effects, out.unmodelled


def check_statics(rep, facts, cfgname):
    if cfgname not in ("A", "R"):
        return
    prog = E.Program(facts)
    q = K.Q
    s, t = K.two_adicity(q - 1)
    zc = prog.consts.get("ark_curve::constants::ZETA")
    if zc is None:
        rep.fail_closed("ark_curve::constants::ZETA not found")
        return
    zeta = K.felt(zc["value"]["val"], "fq")[1]
    M = (q - 1) >> s
    want = {
        "ONE": ("F", "fq", 1), "TWO": ("F", "fq", 2), "N": s, "SQRT_W": 8,
        "M": M, "M_MINUS_ONE_DIV_TWO": (M - 1) // 2,
        "ZETA_TO_ONE_MINUS_M_DIV_TWO": ("F", "fq", pow(pow(zeta, (M - 1) // 2, q), -1, q)),
        "G": ("F", "fq", pow(zeta, M, q)),
    }
    why = {"ONE": "1", "TWO": "2", "N": "2-adicity of q-1", "SQRT_W": "window width 8 (tables have 2^8 rows)", "M": "(q-1)/2^N",
           "M_MINUS_ONE_DIV_TWO": "(M-1)/2", "ZETA_TO_ONE_MINUS_M_DIV_TWO": "ZETA^((1-M)/2)", "G": "ZETA^M"}
    n = 0
    for name, w in want.items():
        path = "ark_curve::constants::" + name
        v, effects, unm = eval_static(prog, path)
        b = prog.bodies.get(path)
        if v is None or b is None:
            rep.fail_closed("static %s not found" % path)
            continue
        try:
            got = fold(v)
        except NotConst as ex:
            rep.ob("CONST/%s/%s" % (cfgname, path), False, "initialiser of %s could not be constant-folded: %s" % (name, ex), where=b["sp"])
            continue
        n += 1
        rep.ob("CONST/%s/%s" % (cfgname, path), got == w, "%s folds to %s; its defining relation (%s) gives %s" % (
            name, got if not isinstance(got, tuple) else hex(got[2]), why[name], w if not isinstance(w, tuple) else hex(w[2])), where=b["sp"],
            sample={"constant": path, "relation": why[name], "holds": got == w})
    # every MontFp! literal must be below the modulus of its field type
    for name in list(want) + ["R"]:
        path = "ark_curve::constants::" + name
        if prog.body(path) is None:
            continue
        v, effects, unm = eval_static(prog, path)
        for pc, kind, args, site in effects:
            if kind == "montfp_literal_not_reduced":
                rep.info("static %s: MontFp! literal %s is not below the modulus of its field (%s) and evaluates to %s; it is private and only read by a "
                         "debug assertion (the order test in on_curve.rs is therefore vacuous) - INFO, no property rests on it" % (
                             path, args[0].args[0], args[1].args[0], args[0].args[0] % K.MODULI[args[1].args[0]]))
    rep.analysed.setdefault("statics_folded", {})[cfgname] = n
