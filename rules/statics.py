"""Lazy / plain statics of ark_curve::constants: evaluated by constant folding of their initialiser
(filled in by the term engine)."""


def check_statics(rep, facts, cfgname):
    return
