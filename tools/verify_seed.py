#!/usr/bin/env python3
"""Confirm a seeded change in a scratch worktree:  tools/verify_seed.py <seed-dir> [...]
 1. clean tree + demo  -> demo passes
 2. apply patch        -> cargo check in the 3 configurations, full pinned suite passes (101), demo fails
Writes <seed-dir>/verified.json.  The scratch worktree lives under /tmp/seedverify and is reused (shared target dir)."""
import json, os, re, shutil, subprocess, sys

WT = "/tmp/seedverify/wt"


def sh(cmd, cwd=WT, timeout=3600):
    env = dict(os.environ, CARGO_NET_OFFLINE="true")
    r = subprocess.run(cmd, shell=True, cwd=cwd, env=env, stdout=subprocess.PIPE, stderr=subprocess.STDOUT, text=True, timeout=timeout)
    return r.returncode, r.stdout


def ensure_wt():
    if not os.path.isdir(WT):
        os.makedirs(os.path.dirname(WT), exist_ok=True)
        subprocess.run(["git", "-C", "/repo", "worktree", "add", "--detach", WT, "HEAD"], check=True, stdout=subprocess.DEVNULL)
    sh("git checkout -q -- . && git clean -fdq tests src")
    rc, out = sh("git rev-parse HEAD")
    head = subprocess.run(["git", "-C", "/repo", "rev-parse", "HEAD"], stdout=subprocess.PIPE, text=True).stdout.strip()
    if out.strip() != head:
        sh("git checkout -q --detach " + head)


def counts(out):
    p = sum(int(x) for x in re.findall(r"test result: \w+\. (\d+) passed", out))
    f = sum(int(x) for x in re.findall(r"test result: \w+\. \d+ passed; (\d+) failed", out))
    return p, f


def verify(d):
    meta = json.load(open(os.path.join(d, "meta.json")))
    demo_cmd = meta.get("demo_cmd", "cargo test --offline --test demo_seed")
    first = demo_cmd.split("\n")[0]
    envp = re.search(r"(RUSTFLAGS=(\"[^\"]*\"|'[^']*'|\S+))\s+cargo test", first)
    demo_cmd = re.sub(r"^.*?(cargo test)", r"\1", first).strip().strip("`")
    toks = []
    for t in demo_cmd.split():
        if t.startswith("(") or t.startswith("#") or t.startswith(";") or t in ("with", "and", "-", "--", "#"):
            break
        toks.append(t.strip("`,;"))
    demo_cmd = " ".join(toks)
    if "--offline" not in demo_cmd:
        demo_cmd = demo_cmd.replace("cargo test", "cargo test --offline")
    if envp:
        demo_cmd = envp.group(1) + " " + demo_cmd        # e.g. the cfg(decaf377_verif) hook some C14 demonstrations need
    res = {"seed": d, "demo_cmd": demo_cmd}
    ensure_wt()
    shutil.copy(os.path.join(d, "demo.rs"), os.path.join(WT, "tests", "demo_seed.rs"))
    rc, out = sh(demo_cmd + " 2>&1")
    p, f = counts(out)
    res["clean_demo"] = {"rc": rc, "passed": p, "failed": f}
    rc, out = sh("git apply " + os.path.join(d, "patch.diff"))
    res["apply_rc"] = rc
    if rc != 0:
        res["ok"] = False
        res["why"] = "patch does not apply: " + out[-300:]
        return res
    chk = {}
    for name, flags in (("default", ""), ("min", "--no-default-features"), ("r1cs", "--features r1cs")):
        rc, out = sh("cargo check --offline --lib %s 2>&1 | tail -3" % flags)
        chk[name] = "error" not in out.lower() or "warning" in out.lower() and "error:" not in out and "could not compile" not in out
        if "could not compile" in out or "error[" in out or "error:" in out:
            chk[name] = False
    res["checks"] = chk
    os.remove(os.path.join(WT, "tests", "demo_seed.rs"))
    rc, out = sh("cargo test --workspace --no-fail-fast --offline 2>&1")
    p, f = counts(out)
    res["suite_with_patch"] = {"rc": rc, "passed": p, "failed": f}
    shutil.copy(os.path.join(d, "demo.rs"), os.path.join(WT, "tests", "demo_seed.rs"))
    rc, out = sh(demo_cmd + " 2>&1")
    p, f = counts(out)
    res["patched_demo"] = {"rc": rc, "passed": p, "failed": f}
    sh("git checkout -q -- . && git clean -fdq tests src")
    res["ok"] = (res["clean_demo"]["rc"] == 0 and res["clean_demo"]["passed"] > 0 and all(chk.values())
                 and res["suite_with_patch"]["rc"] == 0 and res["suite_with_patch"]["passed"] == 101 and res["suite_with_patch"]["failed"] == 0
                 and res["patched_demo"]["rc"] != 0 and res["patched_demo"]["failed"] > 0)
    return res


if __name__ == "__main__":
    for d in sys.argv[1:]:
        try:
            r = verify(d.rstrip("/"))
        except Exception as ex:
            r = {"seed": d, "ok": False, "why": repr(ex)}
        json.dump(r, open(os.path.join(d, "verified.json"), "w"), indent=1)
        print(("OK  " if r.get("ok") else "BAD ") + d, json.dumps({k: v for k, v in r.items() if k not in ("seed",)})[:400], flush=True)
