#!/usr/bin/env python3
"""Copy verified seeded defects from /tmp/seeds/out-Cxx/k into /verif/seeded/Cxx-k and record which checks catch them.
usage: tools/register_seeds.py [<out-dir> ...]   (default: every /tmp/seeds/out-C*/[0-9])"""
import glob, json, os, shutil, sys
VERIF = os.path.dirname(os.path.dirname(os.path.abspath(__file__)))
sys.path.insert(0, os.path.join(VERIF, "tools"))
import scratch_check

IDS = ["C%02d" % i for i in range(1, 18)]


def refresh():
    """recompute caught_by of every registered seed against the current tree and checks"""
    for mf in sorted(glob.glob(os.path.join(VERIF, "seeded", "C*", "meta.json"))):
        d = os.path.dirname(mf)
        m = json.load(open(mf))
        res = scratch_check.run(os.path.join(d, "patch.diff"), IDS)
        if any(v[0] == "error" and "does not apply" in str(v[1]) for v in res.values()):
            print(os.path.basename(d), "PATCH DOES NOT APPLY to the current tree", flush=True)
            continue
        caught = {k: v[1] for k, v in res.items() if v[0] == "caught"}
        old = sorted(m.get("caught_by") or {})
        m["caught_by"] = caught
        m["target_property_check_catches_it"] = m.get("property") in caught
        m["check_errors"] = {k: str(v[1])[:200] for k, v in res.items() if v[0] == "error"}
        json.dump(m, open(mf, "w"), indent=1)
        print(os.path.basename(d), "caught by", sorted(caught), "" if old == sorted(caught) else "(was %s)" % old,
              "MISSED by its own property's check" if m.get("property") not in caught else "", flush=True)


def main():
    if sys.argv[1:] == ["--refresh"]:
        return refresh()
    dirs = sys.argv[1:] or sorted(glob.glob("/tmp/seeds/out-C*/[0-9]"))
    for d in dirs:
        vf = os.path.join(d, "verified.json")
        if not os.path.exists(vf):
            print("skip (not verified yet)", d)
            continue
        ver = json.load(open(vf))
        meta = json.load(open(os.path.join(d, "meta.json")))
        pid = meta.get("property") or os.path.basename(os.path.dirname(d)).replace("out-", "")
        import re as _re
        mm = _re.search(r"/seeds(\d+)/", d)
        rnd = ("r%s-" % mm.group(1)) if mm else ""
        name = "%s-%s%s" % (pid, rnd, os.path.basename(d))
        dst = os.path.join(VERIF, "seeded", name)
        if not ver.get("ok"):
            print("NOT KEPT (verification failed)", d, json.dumps(ver)[:300])
            continue
        res = scratch_check.run(os.path.join(d, "patch.diff"), IDS)
        caught = {k: v[1] for k, v in res.items() if v[0] == "caught"}
        errors = {k: str(v[1])[:200] for k, v in res.items() if v[0] == "error"}
        os.makedirs(dst, exist_ok=True)
        shutil.copy(os.path.join(d, "patch.diff"), os.path.join(dst, "patch.diff"))
        shutil.copy(os.path.join(d, "demo.rs"), os.path.join(dst, "demo.rs"))
        m = {
            "property": pid,
            "summary": meta.get("summary"),
            "file": meta.get("file"), "function": meta.get("function"),
            "needs_to_manifest": meta.get("needs"),
            "demo_cmd": ver.get("demo_cmd"),
            "confirmed_by_me": {
                "how": "tools/verify_seed.py in a scratch git worktree of /repo HEAD: demo on clean tree, git apply, cargo check x3, cargo test --workspace --offline, demo with the change",
                "clean_demo": ver.get("clean_demo"), "cargo_check": ver.get("checks"), "pinned_suite_with_change": ver.get("suite_with_patch"), "demo_with_change": ver.get("patched_demo"),
            },
            "caught_by": caught,
            "target_property_check_catches_it": pid in caught,
            "check_errors": errors,
            "origin": "independent sub-agent given only the property text and a scratch worktree",
        }
        json.dump(m, open(os.path.join(dst, "meta.json"), "w"), indent=1)
        print(name, "caught by", sorted(caught), ("MISSED by its own property's check" if pid not in caught else ""), flush=True)


if __name__ == "__main__":
    main()
