#!/usr/bin/env python3
"""Mutation sweep of the CHECKER (not of decaf377): generate single-site syntactic mutants of /repo's sources, run every check against each on a
scratch copy (nothing is compiled into a binary and nothing is run: a mutant that does not type-check is discarded by the fact extraction),
and list the mutants no check notices.  Those are then triaged by hand: equivalent mutant, outside every property, or a gap.

usage: tools/mutate.py list                      -> counts per file / operator
       tools/mutate.py run <out.jsonl> [--files REGEX] [--ops a,b,..] [--max N] [--seed S] [--jobs J]
       tools/mutate.py show <out.jsonl>          -> the silent ones
Nothing here is a registered check; it is a development tool (DESIGN 12.5c)."""
import difflib, glob, json, os, random, re, sys, tempfile
from concurrent.futures import ThreadPoolExecutor

VERIF = os.path.dirname(os.path.dirname(os.path.abspath(__file__)))
sys.path.insert(0, os.path.join(VERIF, "tools"))
REPO = os.environ.get("DECAF_REPO", "/repo")
IDS = ["C%02d" % i for i in range(1, 18)]


def code_mask(src):
    """same length as src; comment and string-literal characters replaced by spaces (newlines kept)"""
    out = list(src)
    i, n = 0, len(src)
    while i < n:
        c = src[i]
        if src.startswith("//", i):
            j = src.find("\n", i)
            j = n if j < 0 else j
            for k in range(i, j):
                out[k] = " "
            i = j
        elif src.startswith("/*", i):
            depth, j = 1, i + 2
            while j < n and depth:
                if src.startswith("/*", j):
                    depth += 1
                    j += 2
                elif src.startswith("*/", j):
                    depth -= 1
                    j += 2
                else:
                    j += 1
            for k in range(i, j):
                if out[k] != "\n":
                    out[k] = " "
            i = j
        elif c == '"':
            j = i + 1
            while j < n and src[j] != '"':
                j += 2 if src[j] == "\\" else 1
            for k in range(i, min(j + 1, n)):
                if out[k] != "\n":
                    out[k] = " "
            i = j + 1
        elif c == "'" and i + 2 < n and (src[i + 2] == "'" or (src[i + 1] == "\\" and src.find("'", i + 2) - i <= 6)):
            j = src.find("'", i + 2)
            for k in range(i, j + 1):
                out[k] = " "
            i = j + 1
        else:
            i += 1
    return "".join(out)


BIN = [(r"(?<= )\+(?= )", "-"), (r"(?<= )-(?= )", "+"), (r"(?<= )\*(?= )", "+"), (r"(?<= )\+=(?= )", "-="), (r"(?<= )-=(?= )", "+="), (r"(?<= )\*=(?= )", "+="),
       (r"(?<= )==(?= )", "!="), (r"(?<= )!=(?= )", "=="), (r"(?<= )<(?= )", "<="), (r"(?<= )<=(?= )", "<"), (r"(?<= )>(?= )", ">="), (r"(?<= )>=(?= )", ">"),
       (r"(?<= )&&(?= )", "||"), (r"(?<= )\|\|(?= )", "&&"), (r"(?<= )&(?= )", "|"), (r"(?<= )\|(?= )", "&"), (r"(?<= )<<(?= )", ">>"), (r"(?<= )>>(?= )", "<<"),
       (r"(?<= )&=(?= )", "|="), (r"(?<= )\|=(?= )", "&="), (r"(?<= )\^(?= )", "|")]
WORD = [(r"\btrue\b", "false"), (r"\bfalse\b", "true"), (r"\bZERO\b", "ONE"), (r"\bONE\b", "ZERO"), (r"\bzero\(\)", "one()"), (r"\bone\(\)", "zero()"),
        (r"\.is_zero\(\)", ".is_one()"), (r"\.square\(\)", ".double()"), (r"\.double\(\)", ".square()"), (r"\.abs\(\)", ""), (r"\bis_negative\(\)", "is_nonnegative()"),
        (r"\bis_nonnegative\(\)", "is_negative()"), (r"\.rev\(\)", ""), (r"\bSome\(", "Some(!"), (r"\.negate\(\)\?", ""), (r"\.neg\(\)", ""),
        (r"\bfrom_le_bytes\b", "from_be_bytes"), (r"\bto_le_bytes\b", "to_be_bytes"), (r"\bis_some\(\)", "is_none()"), (r"\bis_ok\(\)", "is_err()"),
        (r"\.not\(\)", ""), (r"\.inverse\(\)", ".map(|x| x)"), (r"\bmin\(", "max("), (r"\bmax\(", "min(")]
OTHER = [("rmnot", r"(?<![A-Za-z0-9_\]\)])!(?=[A-Za-z_(])", ""), ("rmneg", r"(?<=[=(,\[ ])-(?=[A-Za-z_(&*])", "")]


def sites_of(path, src):
    mask = code_mask(src)
    m_ = re.search(r"#\[cfg\([^\]]*\btest\b[^\]]*\)\]\s*(pub\s+)?mod\s", mask)
    if m_:
        cut = m_.start()
        mask = mask[:cut] + re.sub(r"[^\n]", " ", mask[cut:])
    # drop attribute lines
    mask = "\n".join((" " * len(l)) if l.lstrip().startswith("#[") or l.lstrip().startswith("#![") or l.lstrip().startswith("use ") else l for l in mask.split("\n"))
    sites = []
    for rx, rep in BIN:
        for m in re.finditer(rx, mask):
            sites.append(("bin:" + m.group(0) + "->" + rep, m.start(), m.end(), rep))
    for rx, rep in WORD:
        for m in re.finditer(rx, mask):
            sites.append(("word:" + m.group(0) + "->" + rep, m.start(), m.end(), rep))
    for name, rx, rep in OTHER:
        for m in re.finditer(rx, mask):
            sites.append((name, m.start(), m.end(), rep))
    for m in re.finditer(r"(?<![A-Za-z0-9_.])(\d[\d_]*)(u8|u16|u32|u64|u128|usize|i32|i64|i128)?(?![A-Za-z0-9_.])", mask):
        txt = m.group(1).replace("_", "")
        if not txt.isdigit():
            continue
        n = int(txt)
        suf = m.group(2) or ""
        sites.append(("lit:%d+1" % n if n < 10 ** 6 else "biglit+1", m.start(), m.end(), str(n + 1) + suf))
        if n > 0:
            sites.append(("lit:%d-1" % n if n < 10 ** 6 else "biglit-1", m.start(), m.end(), str(n - 1) + suf))
    for m in re.finditer(r"(?<![A-Za-z0-9_])0x([0-9a-fA-F_]+)", mask):
        n = int(m.group(1).replace("_", ""), 16)
        sites.append(("hex+1" if n >= 10 ** 6 else "lit:%d+1" % n, m.start(), m.end(), hex(n + 1)))
    # deletion of a whole single-line statement (assignment / call in statement position)
    pos = 0
    for line in mask.split("\n"):
        st = line.strip()
        if st.endswith(";") and not re.match(r"(let|return|use|pub|const|static|type|mod|extern|break|continue|fn|impl|struct|enum|trait|\}|\))\b", st) and st.count("(") == st.count(")") \
                and st.count("{") == st.count("}") and len(st) > 3 and not st.startswith("}"):
            a = pos + (len(line) - len(line.lstrip()))
            sites.append(("delstmt", a, pos + len(line.rstrip()), ""))
        pos += len(line) + 1
    return sites


def all_sites(files_rx=None):
    res = []
    for p in sorted(glob.glob(os.path.join(REPO, "src", "**", "*.rs"), recursive=True)):
        rel = os.path.relpath(p, REPO)
        if rel.endswith("fiat.rs") or "/tests" in rel or rel.endswith("tests.rs"):
            continue
        if files_rx and not re.search(files_rx, rel):
            continue
        src = open(p).read()
        for op, a, b, rep in sites_of(rel, src):
            res.append((rel, op, a, b, rep))
    return res


def make_patch(rel, a, b, rep, outdir, k):
    src = open(os.path.join(REPO, rel)).read()
    new = src[:a] + rep + src[b:]
    d = "".join(difflib.unified_diff(src.splitlines(True), new.splitlines(True), "a/" + rel, "b/" + rel, n=2))
    pf = os.path.join(outdir, "m%05d.diff" % k)
    open(pf, "w").write(d)
    line = src.count("\n", 0, a) + 1
    return pf, line, src.split("\n")[line - 1].strip()[:160], new.split("\n")[line - 1].strip()[:160]


def main():
    cmd = sys.argv[1]
    if cmd == "list":
        import collections
        ss = all_sites(sys.argv[2] if len(sys.argv) > 2 else None)
        byf, byo = collections.Counter(s[0] for s in ss), collections.Counter(s[1].split(":")[0] for s in ss)
        for f, n in sorted(byf.items()):
            print("%5d %s" % (n, f))
        print(dict(byo), len(ss))
        return
    if cmd == "show":
        for l in open(sys.argv[2]):
            r = json.loads(l)
            if r["status"] == "silent":
                print("%s:%d [%s]\n    - %s\n    + %s" % (r["file"], r["line"], r["op"], r["old"], r["new"]))
        return
    if cmd == "run":
        import scratch_check
        out = sys.argv[2]
        args = sys.argv[3:]
        opt = lambda k, d=None: args[args.index(k) + 1] if k in args else d
        ss = all_sites(opt("--files"))
        ops = opt("--ops")
        if ops:
            ss = [s for s in ss if s[1].split(":")[0] in ops.split(",")]
        rnd = random.Random(int(opt("--seed", "1")))
        rnd.shuffle(ss)
        done = set()
        if os.path.exists(out):
            for l in open(out):
                r = json.loads(l)
                done.add((r["file"], r["a"], r["op"]))
        ss = [s for s in ss if (s[0], s[2], s[1]) not in done][:int(opt("--max", "200"))]
        tmp = tempfile.mkdtemp(prefix="mut-", dir=os.path.join(VERIF, ".cache"))
        os.environ["SCRATCH_JOBS"] = "6"

        def one(ks):
            k, (rel, op, a, b, rep) = ks
            pf, line, old, new = make_patch(rel, a, b, rep, tmp, k)
            res = scratch_check.run(pf, IDS)
            os.remove(pf)
            caught = sorted(i for i, v in res.items() if v[0] == "caught")
            errs = sorted(i for i, v in res.items() if v[0] == "error")
            status = "caught" if caught else ("error" if errs else "silent")
            return {"file": rel, "line": line, "a": a, "op": op, "old": old, "new": new, "status": status, "caught_by": caught,
                    "first": {i: res[i][1][:2] for i in caught[:3]}, "errors": errs[:3]}
        with ThreadPoolExecutor(max_workers=int(opt("--jobs", "4"))) as ex, open(out, "a") as fo:
            for r in ex.map(one, enumerate(ss)):
                fo.write(json.dumps(r) + "\n")
                fo.flush()
                print(r["status"], r["file"], r["line"], r["op"], r["caught_by"][:4], flush=True)
        os.rmdir(tmp)


if __name__ == "__main__":
    main()
