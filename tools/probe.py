#!/usr/bin/env python3
"""debug helper: interpret one body and print the outcome:  tools/probe.py <cfg> <path-substring> [--deep]"""
import sys, os
sys.path.insert(0, os.path.dirname(os.path.dirname(os.path.abspath(__file__))))
from rules import facts as F, engine as E, summaries as S, terms as Tm
cfg, pat = sys.argv[1], sys.argv[2]
deep = "--deep" in sys.argv
f = F.get([cfg])[cfg]
prog = E.Program(f)
cands = [p for p in prog.bodies if pat in p]
for p in cands[:int(os.environ.get("N", "3"))]:
    I = E.Interp(prog, S.Summaries(abstract_fields=not deep))
    out = I.run(p)
    print("==", p)
    print(" value:", Tm.show(out.value, maxdepth=int(os.environ.get("D", "12"))))
    for i, t in out.outs.items():
        print(" out[%d]:" % i, Tm.show(t, maxdepth=12))
    for pc, kind, args, site in out.effects:
        if kind in ("construct", "index", "try") and not os.environ.get("ALL"):
            continue
        print(" effect:", kind, [Tm.show(x, maxdepth=5) if isinstance(x, Tm.T) else x for x in args], site.get("sp"))
    for pc, site in out.panics:
        print(" panic:", [Tm.show(c, maxdepth=4) for c in pc], site.get("kind"), site.get("sp"))
    for u in out.unmodelled:
        print(" UNMODELLED:", u)
