#!/usr/bin/env python3
"""Run checks against a scratch copy of /repo with a patch applied (never touches /repo, never writes /verif/evidence).
usage: tools/scratch_check.py <patch.diff> <ID> [<ID>...]   -> prints `<ID> caught|silent|error` per check, exit 0"""
import os, shutil, subprocess, sys, tempfile

VERIF = os.path.dirname(os.path.dirname(os.path.abspath(__file__)))


def run(patch, ids, keep=False, tier="quick"):
    base = os.path.join(VERIF, ".cache", "scratch")
    os.makedirs(base, exist_ok=True)
    d = tempfile.mkdtemp(prefix="repo-", dir=base)
    res = {}
    try:
        subprocess.run(["rsync", "-a", "--exclude", "target", "--exclude", ".git", "/repo/", d + "/"], check=True)
        r = subprocess.run(["patch", "-p1", "-s", "-i", os.path.abspath(patch)], cwd=d, stdout=subprocess.PIPE, stderr=subprocess.STDOUT, text=True)
        if r.returncode != 0:
            return {i: ("error", "patch does not apply: " + r.stdout[-200:]) for i in ids}
        ev = os.path.join(d, "_evidence")
        env = dict(os.environ, DECAF_REPO=d, VERIF_EVIDENCE_DIR=ev, CARGO_NET_OFFLINE="true")
        def one(i):
            r = subprocess.run([os.path.join(VERIF, "check"), i, "--tier", tier], cwd=VERIF, env=dict(env, VERIF_EVIDENCE_DIR=os.path.join(ev, i)),
                               stdout=subprocess.PIPE, stderr=subprocess.STDOUT, text=True)
            viol = [l for l in r.stdout.splitlines() if l.startswith("VIOLATION") or l.startswith("  rule-instance")]
            if "FATAL" in r.stdout:
                return i, ("error", r.stdout[-300:])
            if r.returncode == 1 and viol:
                inst = [l.split("rule-instance:")[1].strip() for l in viol if "rule-instance" in l]
                return i, ("caught", inst[:4])
            if r.returncode == 0:
                return i, ("silent", [])
            return i, ("error", r.stdout[-300:])
        if len(ids) > 2:
            # extract the facts of all three configurations once (content-addressed cache), then run the checks concurrently
            subprocess.run(["python3", "-m", "rules.facts", "A", "M", "R"], cwd=VERIF, env=env, stdout=subprocess.DEVNULL, stderr=subprocess.DEVNULL)
            from concurrent.futures import ThreadPoolExecutor
            with ThreadPoolExecutor(max_workers=int(os.environ.get("SCRATCH_JOBS", "8"))) as ex:
                for i, v in ex.map(one, ids):
                    res[i] = v
        else:
            for i in ids:
                res[i] = one(i)[1]
    finally:
        if not keep:
            shutil.rmtree(d, ignore_errors=True)
    return res


if __name__ == "__main__":
    out = run(sys.argv[1], sys.argv[2:])
    for k, (v, info) in out.items():
        print(k, v, info if v != "silent" else "")
