#!/usr/bin/env python3
"""Run checks against a scratch copy of /repo with a patch applied (never touches /repo, never writes /verif/evidence).
usage: tools/scratch_check.py <patch.diff> <ID> [<ID>...]   -> prints `<ID> caught|silent|error` per check, exit 0"""
import os, shutil, subprocess, sys, tempfile

VERIF = os.path.dirname(os.path.dirname(os.path.abspath(__file__)))


def run(patch, ids, keep=False, tier="quick"):
    base = os.path.join(VERIF, ".cache", "scratch")
    os.makedirs(base, exist_ok=True)
    d = tempfile.mkdtemp(prefix="repo-", dir=base)
    res = {}
    try:
        subprocess.run(["rsync", "-a", "--exclude", "target", "--exclude", ".git", "/repo/", d + "/"], check=True)
        r = subprocess.run(["patch", "-p1", "-s", "-i", os.path.abspath(patch)], cwd=d, stdout=subprocess.PIPE, stderr=subprocess.STDOUT, text=True)
        if r.returncode != 0:
            return {i: ("error", "patch does not apply: " + r.stdout[-200:]) for i in ids}
        ev = os.path.join(d, "_evidence")
        env = dict(os.environ, DECAF_REPO=d, VERIF_EVIDENCE_DIR=ev, CARGO_NET_OFFLINE="true")
        for i in ids:
            r = subprocess.run([os.path.join(VERIF, "check"), i, "--tier", tier], cwd=VERIF, env=env, stdout=subprocess.PIPE, stderr=subprocess.STDOUT, text=True)
            viol = [l for l in r.stdout.splitlines() if l.startswith("VIOLATION") or l.startswith("  rule-instance")]
            if "FATAL" in r.stdout:
                res[i] = ("error", r.stdout[-300:])
            elif r.returncode == 1 and viol:
                inst = [l.split("rule-instance:")[1].strip() for l in viol if "rule-instance" in l]
                res[i] = ("caught", inst[:4])
            elif r.returncode == 0:
                res[i] = ("silent", [])
            else:
                res[i] = ("error", r.stdout[-300:])
    finally:
        if not keep:
            shutil.rmtree(d, ignore_errors=True)
    return res


if __name__ == "__main__":
    out = run(sys.argv[1], sys.argv[2:])
    for k, (v, info) in out.items():
        print(k, v, info if v != "silent" else "")
