#!/usr/bin/env python3
"""Regenerates /verif/MANIFEST.json from the table below (kept in one place so that the manifest is always valid)."""
import json, os
HERE = os.path.dirname(os.path.dirname(os.path.abspath(__file__)))

BASE_OFF = ("cd /repo && cargo nextest run --workspace --no-fail-fast --tool-config-file pb:/w/lib/nextest.toml --profile pb "
            "--test-threads 8 --offline || cargo test --workspace --no-fail-fast --offline")

CHECKS = {
    "C17": dict(
        technique="static: compiler const-evaluation of every constant (rustc_private driver) + recomputation of each defining relation from the moduli (CONST rule)",
        category="other",
        text="Exhaustive over the finite set of constants: every const/assoc const of the crate in both builds is evaluated by rustc itself and "
             "compared with the value recomputed from the specification anchors (modulus-derived quantities, orders of roots of unity, curve "
             "equations, generator = decode(8), order of the generator). A finite statement about constants, decided completely except for the "
             "full-generator property of MULTIPLICATIVE_GENERATOR (checked for the prime factors of p-1 below 2^20 and against arkworks' own derived constant).",
        note="Trusted: rustc's const evaluator, Python big-integer arithmetic, the specification anchors in rules/consts.py (x_BLS, a, d, r).",
        design="DESIGN.md §4 C17",
    ),
}

CHECKS["C16"] = dict(
    technique="static: const-evaluation of every parameter of the generic pairing engine (crate config vs ark_bls12_377 config, same driver) + recomputation from first principles (CONST rule), method-override table",
    category="other",
    text="The exported engine is arkworks' generic Bls12<Config>; it equals the reference engine iff the parameters agree. All 21 associated constants "
         "(about thirty limb arrays: non-residues, 26 Frobenius coefficients, curve coefficients, both generators, cofactors and inverses, x, twist type) are "
         "evaluated by rustc for both configs and compared as canonical integers, and independently recomputed (powers of the non-residue, curve/twist "
         "equations, r-torsion of the generators, CM cofactors, BLS12 polynomials). Exhaustive over the finite parameter set.",
    note="Trusted: the arkworks generic pairing/tower code shared by both instantiations; the crate's Fp/Fq being the right fields is C10/C11/C17. Bilinearity and non-degeneracy are inherited, not re-proved.",
    design="DESIGN.md §4 C16",
)

NOT_APPLICABLE = {}

PENDING = {}  # property -> reason, for properties whose check is not built yet


def main():
    props = [json.loads(l)["id"] for l in open(os.path.join(HERE, "properties.jsonl"))]
    checks = []
    for pid in props:
        if pid not in CHECKS:
            continue
        c = CHECKS[pid]
        checks.append({
            "property_id": pid,
            "quick_cmd": "./check %s --tier quick" % pid,
            "thorough_cmd": "./check %s --tier thorough" % pid,
            "evidence_file": "/verif/evidence/%s.json" % pid,
            "replay_cmd_template": "./check %s --replay {path}" % pid,
            "engine": "decaf-facts+rules",
            "level_claimed": {"category": c["category"], "text": c["text"], "design_ref": c["design"]},
            "level_note": c["note"],
            "technique": c["technique"],
        })
    na = []
    for pid in props:
        if pid in CHECKS:
            continue
        reason = NOT_APPLICABLE.get(pid) or PENDING.get(pid) or "check not built yet (see DESIGN.md for the planned static rules); nothing is claimed for this property at this commit"
        na.append({"property_id": pid, "reason": reason})
    m = {
        "version": 1,
        "setup_cmd": "./setup.sh",
        "hooks": {
            "guard": "decaf377_verif",
            "enable": "none needed: the analysis reads the code as it is (no hooks or instrumentation are compiled into /repo)",
            "baseline_off_cmd": BASE_OFF,
            "source_commits": [],
            "add_only": True,
        },
        "engines": [
            {"name": "decaf-facts", "path": "driver/", "serves_properties": sorted(CHECKS),
             "kind_free_text": "rustc_private driver run as RUSTC_WORKSPACE_WRAPPER under cargo +nightly check in three configurations; dumps type-checked HIR with resolved callees, impl/item tables and const-evaluated constants as JSON"},
            {"name": "rules", "path": "rules/", "serves_properties": sorted(CHECKS),
             "kind_free_text": "python3 rule engine over the facts: abstract interpretation of HIR into algebraic terms, structural rules (forwarding, provenance, domain typestate, taint, guard tables, index bounds, panic tables, constants)"},
        ],
        "checks": checks,
        "not_applicable": na,
        "notes": "Technique family: static analysis only. No decaf377 code is executed, concretely or symbolically. See DESIGN.md.",
    }
    with open(os.path.join(HERE, "MANIFEST.json"), "w") as fh:
        json.dump(m, fh, indent=1)
    print("MANIFEST.json written: %d checks, %d not claimed" % (len(checks), len(na)))


if __name__ == "__main__":
    main()
