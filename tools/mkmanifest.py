#!/usr/bin/env python3
"""Regenerates /verif/MANIFEST.json from the table below (kept in one place so that the manifest is always valid)."""
import json, os
HERE = os.path.dirname(os.path.dirname(os.path.abspath(__file__)))

BASE_OFF = ("cd /repo && cargo nextest run --workspace --no-fail-fast --tool-config-file pb:/w/lib/nextest.toml --profile pb "
            "--test-threads 8 --offline || cargo test --workspace --no-fail-fast --offline")

CHECKS = {
    "C17": dict(
        technique="static: compiler const-evaluation of every constant (rustc_private driver) + recomputation of each defining relation from the moduli (CONST rule)",
        category="other",
        text="Exhaustive over the finite set of constants: every const/assoc const of the crate in both builds is evaluated by rustc itself and "
             "compared with the value recomputed from the specification anchors (modulus-derived quantities, orders of roots of unity, curve "
             "equations, generator = decode(8), order of the generator). A finite statement about constants, decided completely except for the "
             "full-generator property of MULTIPLICATIVE_GENERATOR (checked for the prime factors of p-1 below 2^20 and against arkworks' own derived constant).",
        note="Trusted: rustc's const evaluator, Python big-integer arithmetic, the specification anchors in rules/consts.py (x_BLS, a, d, r).",
        design="DESIGN.md §4 C17",
    ),
}

CHECKS["C16"] = dict(
    technique="static: const-evaluation of every parameter of the generic pairing engine (crate config vs ark_bls12_377 config, same driver) + recomputation from first principles (CONST rule), method-override table, and the field-layer rules of C10/C11 instantiated on Fp (the engine's base field is the crate's own wrapper)",
    category="other",
    text="The exported engine is arkworks' generic Bls12<Config>; it equals the reference engine iff the parameters agree. All 21 associated constants "
         "(about thirty limb arrays: non-residues, 26 Frobenius coefficients, curve coefficients, both generators, cofactors and inverses, x, twist type) are "
         "evaluated by rustc for both configs and compared as canonical integers, and independently recomputed (powers of the non-residue, curve/twist "
         "equations, r-torsion of the generators, CM cofactors, BLS12 polynomials). Exhaustive over the finite parameter set.",
    note="Trusted: the arkworks generic pairing/tower code shared by both instantiations; the crate's Fp/Fq being the right fields is C10/C11/C17. Bilinearity and non-degeneracy are inherited, not re-proved.",
    design="DESIGN.md §4 C16",
)

OTHER_NOTE = ("Trusted: rustc's type checker, trait resolution and const evaluator; the summary table rules/summaries.py (meaning of arkworks / core / "
              "subtle / r1cs-std callees); lower layers as stated in the text (each layer's own check discharges them).")

CHECKS["C01"] = dict(
    technique="static: abstract interpretation of type-checked HIR into algebraic terms + canonical polynomial normal form compared with the specification's decode/encode terms (TERM), byte funnel, sign convention, canonical-parse shape, decode-entry funnel (C02's FUNNEL instances), coordinate-wise selection shape (SELECT)",
    category="other",
    text="Decides that the code of each build IS the specification's decode and encode maps for all inputs, representatives and projective scalings at once "
         "(function comparison by normal form, not sampling); plus that vartime_compress is the canonical LE bytes of that value and that the sign convention "
         "reads the lsb of the canonical value. The round-trip identity itself is the Decaf theorem applied to these maps and is assumed, not re-proved.",
    note=OTHER_NOTE + " Assumes ISQRT's four-case contract (C09) and exact field arithmetic (C10).", design="DESIGN.md §4 C01")
CHECKS["C02"] = dict(
    technique="static: return-flow / guard-set extraction by abstract interpretation (GUARD-SET), glue-level canonical-parse shape with const-evaluated modulus (CANON-PARSE), must-pass-through funnel over compiler-enumerated entry points (FUNNEL), panic-site table (PANIC)",
    category="other",
    text="The set of rejecting conditions of decode equals the specification's four (canonical boolean/polynomial forms), success is gated by exactly their negations, "
         "the canonical check is `LE-limbs(bytes) >= q` with the constant evaluated to q (or reduce-and-compare in the minimal build), every one of the 16 decoding entry "
         "points reduces to decode(unmodified input) with only length/read/mode guards, and reachable non-debug panic sites are tabled with reasons.",
    note=OTHER_NOTE + " 'ISQRT answers square? correctly' is C09; primitive reduction/serialisation is C10/C11.", design="DESIGN.md §4 C02")
CHECKS["C03"] = dict(
    technique="static: TERM conformance of the encoder on projective coordinates, homogeneity weights of the extracted polynomial under projective scaling (HOMOG), invariance of the extracted term under the coset involution (X,Y) -> (-X,-Y) (COSET), observation funnel with exactness obligations over all encoding entry points, overrides of provided core/subtle trait methods on the point types judged against the trait default (OVERRIDE), provenance of the affine<->projective conversion sites (C06's PROV instances), identity-form forwarding (into_affine etc.)",
    category="other",
    text="The encoder equals the specification's map on projective (X:Y:Z:T) as a polynomial function; independently of the spec its output has weight 0 under scaling and every "
         "sign test looks at a weight-0 quantity; all 13 encoding entry points (conversions, serialisers, Debug/Display, ToConstraintField) observe self only through bytes(encode(self)).",
    note=OTHER_NOTE + " Constancy on cosets and injectivity of the specified encoder are the Decaf theorem (assumed).", design="DESIGN.md §4 C03")
CHECKS["C04"] = dict(
    technique="static: forwarding rule over every compiler-listed operator impl (FWD: result denotes G_ADD/G_NEG on the impl's own operands), polynomial ideal-membership by normal-form reduction for the hand-written formulas incl. a completeness factorisation of Z3 (IDEAL), identity/generator constants, identity-form forwarding of the arkworks conversion/cofactor/generator/double methods, coordinate-wise selection shape (SELECT), coverage table over every function of the crate's arkworks group-trait impls (COVER) and over the curve configuration's overridden hooks (HOOK)",
    category="other",
    text="All 59 Add/Sub/Neg/AddAssign/SubAssign/Sum impls plus negate/double_in_place are interpreted down to the arkworks point operations and must denote the right abstract group "
         "operation on their own operands; the minimal backend's add/double/neg formulas are proved to satisfy the a=-1 twisted Edwards law as polynomial identities modulo T*Z=X*Y and the "
         "curve equation, with Z3 a product of never-vanishing factors (completeness).",
    note=OTHER_NOTE + " Trusted: arkworks' twisted_edwards Projective/Affine operators are the complete group law.", design="DESIGN.md §4 C04")
CHECKS["C05"] = dict(
    technique="static: forwarding rule over every Mul/MulAssign impl and mul_bigint / multiscalar stub (FWD), loop-summary template match of the double-and-add ladder for both const-generic variants (LADDER), the selection the constant-time ladder is built on (SELECT), the curve configuration's overridden scalar-multiplication hooks (HOOK), group-order facts on const-evaluated constants",
    category="other",
    text="Every scalar-multiplication form denotes G_SMUL(point operand, scalar operand); mul_bigint forwards the whole integer; the multiscalar stub folds s*P from the identity; the minimal "
         "backend's ladder is the LSB-first double-and-add over all limbs x 64 bits with no early exit (premises of the textbook induction); cofactor 1, r prime, generator of exact order r.",
    note=OTHER_NOTE + " Module laws follow from G_SMUL being the k-fold sum (assumed); arkworks mul_bigint trusted.", design="DESIGN.md §4 C05")

CHECKS["C06"] = dict(
    technique="static: provenance typestate over every compiler-resolved construction site of Element/AffinePoint (PROV), coordinate-wise selection shape (SELECT), curve-equation identities of the decoder's and the Elligator map's outputs modulo the square-root contract (VALID), validity of the published constants (CONST), compile_fail witnesses that the representation is not constructible downstream (WIT, thorough)",
    category="other",
    text="The representation fields are not public, so values of these types arise only at construction sites inside the crate. All 32 sites (28 arkworks build, 4 minimal build) "
         "are found from the resolved HIR and the wrapped curve point's term must have provenance in the closed set VALID (decode / Elligator output, validated constant, group "
         "operations, representation changes, selections and element-wise maps over VALID). Raw curve-point constructors fed with outside data are named as violations.",
    note=OTHER_NOTE + " Assumes decode/Elligator outputs are valid (Decaf theorems; their conformance is C01/C07) and that arkworks group operations stay in the group.",
    design="DESIGN.md §4 C06")
CHECKS["C08"] = dict(
    technique="static: canonical polynomial form of the PartialEq condition (TERM), observation-class shield dataflow over the Hash impls' hasher writes (OBS), identity-predicate normal form and identity-value denotation (IDENT), including predicates inherited from default methods of external traits (the driver lists the provided methods an impl does not override), and overrides of provided core/subtle trait methods (ne, hash_slice, conditional_assign/swap, clone_from) judged against the trait default or reported as not judgeable (OVERRIDE)",
    category="other",
    text="Equality is X1*Y2 - Y1*X2 = 0 on the operands' own coordinates and nothing else; Hash may observe self only through bytes(encode(self)); every identity predicate "
         "normalises to X == 0 and every identity value denotes the neutral element - for all representatives at once.",
    note=OTHER_NOTE + " 'equal iff same encoding' beyond conformance of eq and encode is Decaf section 4.5 (assumed).", design="DESIGN.md §4 C08")
CHECKS["C10"] = dict(
    technique="static: forwarding rule over all 174 operator/iterator impls and 57 arithmetic methods of the field layer down to the backend primitive (FWD), fold identity by evaluated value (IDENT), exponent-coverage loop template (EXP), Montgomery/canonical typestate at raw-limb constructors (DOM), limb-wise selection shape (SELECT), inverse zero-guard, divstep driver facts and the state-transformer dataflow of the safegcd loop (INV), is_sentinel justified as false on reduced elements (SENTINEL), PartialEq / Default forms, overrides of provided core/subtle trait methods against the trait default (OVERRIDE), coverage table over every function of the wrappers' arkworks field-trait impls with the remaining ones interpreted (COVER)",
    category="other",
    text="Decides the hand-written wrapper and forwarding layer of all three fields in both backends: each impl denotes the right ring operation on its own operands in its own order, "
         "Sum/Product fold from 0/1, power/pow_le_limbs consume the whole exponent with a correct square-and-multiply template, raw limbs reach constructors only in the domain they expect, "
         "selection is limb-wise ITE over all limbs, == is equality of the operands, inverse(0) is None and the Bernstein-Yang driver threads (d,f,g,v,r) from the right initial state through exactly I divsteps of this field to precomp * (+-v).",
    note=OTHER_NOTE + " The arithmetic primitives themselves (arkworks Fp<MontBackend>, the Coq-proved fiat-crypto bodies) are trusted and NOT analysed; mutations inside fiat.rs are out of reach.",
    design="DESIGN.md §4 C10")

CHECKS["C07"] = dict(
    technique="static: TERM conformance of elligator_map with the specification's optimised Elligator 2 routine (canonical polynomial forms, projective comparison), forwarding of encode_to_curve / hash_to_curve, constants, and the structural rules of the square-root-of-ratio routine whose non-square output only this map consumes (C09's instances)",
    category="other",
    text="Decides that each build's one-input map is, as a function of r0 (both ISQRT branches and both signs at once), the published optimised Elligator 2 routine "
         "as a projective point, and that the public forms forward to it (two-input hash = group sum of two maps); and, on the code's own term and independently of the "
         "specification, that the map is invariant under r0 -> -r0 (SYM) and that its output satisfies the curve equation and T = XY/Z for every r0 modulo the contract of the "
         "square-root routine (VALID). NOT decided: that the optimised routine equals the unoptimised Elligator 2 map (an algebraic identity about square roots).",
    note=OTHER_NOTE + " Trusted: spec/decaf_spec.py transcription; ISQRT contract (C09); group addition (C04).", design="DESIGN.md §4 C07")
CHECKS["C09"] = dict(
    technique="static: structural necessary conditions only - zero-case return flows, mask-below-length index rule, window/shift/pow-chain integer facts, table-filling loop summaries, constant folding of the Lazy statics, Euler split and constant-time Tonelli-Shanks loop template, Field::legendre shape, exactly one computed return flow besides the zero cases, squaring towers x5^(2^8..2^39), keys and result as pure products of table entries, the returned flag tied to the nonsquare_lookup index, Field::sqrt inherited or interpreted against the routine's contract (SQRT)",
    category="other",
    text="LARGELY NOT APPLICABLE to static analysis: that the routines return a correct root and flag for every (num, den), and that no HashMap lookup misses, is number theory over "
         "data-dependent table walks and is NOT decided. Decided are necessary conditions that realistic edits break while the 10000-case proptest keeps passing: the two zero cases in "
         "order, every table index masked below the table length (22 sites), digit shifts / pow chain telescoping to N = 47, the six tables and s_lookup filled for all 256 digits with the "
         "right exponents, the derived constants, the Euler split and CT Tonelli-Shanks template of the minimal backend, legendre = zero test + Euler.",
    note=OTHER_NOTE + " The contract itself is listed as undecided in the evidence assumptions.", design="DESIGN.md §4 C09, §6")

CHECKS["C11"] = dict(
    technique="static: glue-level abstract interpretation of the conversion layer (arithmetic and wrapper primitives abstract) matched against specified term shapes: chunked Horner reduction, checked parse, canonical stream (de)serialisation, Ord/Hash, integer packing, u32/u64 limb plumbing; constants by evaluated value",
    category="other",
    text="Decides the hand-written conversion glue of Fq/Fr/Fp in both backends (108 obligations): chunk width = N_8, zero padding on the high side, Horner from the most significant chunk with the "
         "constant 2^(8 N_8) mod p (by value), big-endian = reverse then LE, checked parse = reduce/re-serialise/compare, from_bigint rejects iff >= p, stream forms read LE limbs and apply the "
         "same check, Ord compares canonical limbs most-significant first, Hash writes canonical bytes, From<u128> packs limbs, the wrappers split/recombine u32/u64 limbs correctly.",
    note=OTHER_NOTE + " ASSUMED (arithmetic, not shape): from_raw_bytes (arkworks from_le_bytes_mod_order / fiat from_bytes+to_montgomery on unreduced input) reduces modulo p. Display/FromStr are checked for their decimal-Horner / canonical-integer shape only.",
    design="DESIGN.md §4 C11")
CHECKS["C12"] = dict(
    technique="static sibling cross-check of the two feature configurations: canonical-form equality of decode/encode/Elligator under one normaliser, FWD denotations of every shared operator form, identical glue-level terms of the shared field source against both wrappers, constants by canonical value, public-signature parity, C02's decoding entry-point instances, C08's observers and C10's field layer in both builds",
    category="other",
    text="The arkworks build and the minimal build are compared as programs (576 obligations): decode value and guard set, encode and Elligator are the same functions; all operator forms "
         "denote the same abstract operation (minimal formulas tied to the group law by polynomial reduction, ladder by template); 133 shared field-layer routines yield identical terms "
         "against the u64 and u32 wrappers; 64 duplicated constants agree by canonical value; 230 shared public items have equal signatures.",
    note=OTHER_NOTE + " NOT decided: equality of the two primitive layers (arkworks Fp vs fiat bodies) on all inputs, and that the two square-root routines return the same root (C09/C10 trusted parts).",
    design="DESIGN.md §4 C12")

CHECKS["C13"] = dict(
    technique="static (cfg r1cs): term agreement native<->gadget by canonical polynomial forms (SIB/TERM), constraint<->rejection correspondence (ENFORCE), forwarding rule over the 24 gadget operator impls (FWD), hint = native sqrt (HINT), allocation-mode dataflow incl. the value a constant denotes and the identity of the witnessed point (ALLOC / WITNESS), exhaustive 3-state x 2-method typestate enumeration of the lazy cell (LAZY), eager emission of the decode gadget by decompress_from_field (EAGER), honest rows of the hint block's guard table, the gadget zero test and the pinned set of inherited ark-r1cs-std defaults (IDENT/DEFAULT)",
    category="other",
    text="In-circuit encode / decode / Elligator are the same polynomial functions as the specification (hence as the native code, C01/C03/C07) under Z := 1, T := X*Y; decode enforces exactly the "
         "native rejections; every operator form on both ElementVar types, negate, double, equality, (in)equality enforcement and conditional select denote the native operation on their own "
         "operands; isqrt's witnesses are the native sqrt_ratio_zeta(1, value); Constant mode allocates nothing; the lazy cell emits constraints once and memoises exactly what it returns, in every "
         "state and forcing order.",
    note=OTHER_NOTE + " Trusted: ark-r1cs-std gadgets are complete and compute what they say. NOT decided: satisfiability where Elligator's affine denominators vanish; correctness of the sqrt hint (C09).",
    design="DESIGN.md §4 C13")
CHECKS["C14"] = dict(
    technique="static (cfg r1cs): exhaustive truth table of the extracted boolean guards of isqrt's constraint block over (hinted flag, den == 0) with polynomial comparison of each enforced equation (GUARD), witness-path dataflow incl. that the coordinates the equality constraint checks are the caller's own point (WITNESS), call-site rule for the unchecked point allocator (PROV), decode's two ENFORCEs",
    category="other",
    text="Decides the hint block and the witness path: for each of the four (flag, den=0) rows exactly the specified equation is enforced and the case check passes, and the impossible row must be "
         "unsatisfiable - the pinned tree violates that row (KNOWN FINDING: (true, +-1) accepted for den = 0, i.e. s = q-1 decodes in-circuit); witnessed coordinates reach only an equality "
         "constraint and the returned variable is always decompress(witness(encode(value))).",
    note=OTHER_NOTE + " NOT decided: absence of other spurious solutions of the whole constraint system (algebra over Fq). The known finding is recorded in known_findings.txt and is not repaired because the repair changes every circuit and the pinned keys.",
    design="DESIGN.md §4 C14, §7")
CHECKS["C15"] = dict(
    technique="static (cfg r1cs): two-level taint analysis (availability < value) from witness values to control flow / constraint structure over all 81 gadget functions (TAINT), public-input allocation term = ToConstraintField term (INPUT), C13's honest-witness and AllocVar default-method instances, call-order and argument rule for the library's own circuit-shape reporter (SHAPE)",
    category="other",
    text="Clauses 1-2 of the property: no variable-allocating or constraint-emitting effect (691 examined) is control-dependent on a witness value or receives one outside an allocation closure, so the "
         "constraint system is the same for every input and in setup mode; an element allocated as public input is exactly one Fq instance variable equal to vartime_compress_to_field(value), which "
         "is also ToConstraintField. Clause 3 (proofs made with the pinned proving keys verify) is NOT APPLICABLE to static analysis: binary key files and Groth16 arithmetic have no source-level shape.",
    note=OTHER_NOTE + " Trusted: ark-r1cs-std gadgets emit value-independent constraints. Availability dependence (f()? aborting synthesis) is allowed and listed in the evidence.",
    design="DESIGN.md §4 C15")

NOT_APPLICABLE = {}

PENDING = {}  # property -> reason, for properties whose check is not built yet


def main():
    props = [json.loads(l)["id"] for l in open(os.path.join(HERE, "properties.jsonl"))]
    checks = []
    for pid in props:
        if pid not in CHECKS:
            continue
        c = CHECKS[pid]
        checks.append({
            "property_id": pid,
            "quick_cmd": "./check %s --tier quick" % pid,
            "thorough_cmd": "./check %s --tier thorough" % pid,
            "evidence_file": "/verif/evidence/%s.json" % pid,
            "replay_cmd_template": "./check %s --replay {path}" % pid,
            "engine": "decaf-facts+rules",
            "level_claimed": {"category": c["category"], "text": c["text"], "design_ref": c["design"]},
            "level_note": c["note"],
            "technique": c["technique"],
        })
    na = []
    for pid in props:
        if pid in CHECKS:
            continue
        reason = NOT_APPLICABLE.get(pid) or PENDING.get(pid) or "check not built yet (see DESIGN.md for the planned static rules); nothing is claimed for this property at this commit"
        na.append({"property_id": pid, "reason": reason})
    m = {
        "version": 1,
        "setup_cmd": "./setup.sh",
        "hooks": {
            "guard": "decaf377_verif",
            "enable": "RUSTFLAGS=\"--cfg decaf377_verif\" (only the runtime demonstration of the recorded C14 finding under seeded/known-C14-isqrt uses it; the static checks read the code as it is and need no hook)",
            "baseline_off_cmd": BASE_OFF,
            "source_commits": ["429b931"],
            "add_only": True,
        },
        "engines": [
            {"name": "decaf-facts", "path": "driver/", "serves_properties": sorted(CHECKS),
             "kind_free_text": "rustc_private driver run as RUSTC_WORKSPACE_WRAPPER under cargo +nightly check in three configurations; dumps type-checked HIR with resolved callees, impl/item tables and const-evaluated constants as JSON"},
            {"name": "rules", "path": "rules/", "serves_properties": sorted(CHECKS),
             "kind_free_text": "python3 rule engine over the facts: abstract interpretation of HIR into algebraic terms, structural rules (forwarding, provenance, domain typestate, taint, guard tables, index bounds, panic tables, constants)"},
        ],
        "checks": checks,
        "not_applicable": na,
        "notes": "Technique family: static analysis only. No decaf377 code is executed, concretely or symbolically. See DESIGN.md.",
    }
    with open(os.path.join(HERE, "MANIFEST.json"), "w") as fh:
        json.dump(m, fh, indent=1)
    print("MANIFEST.json written: %d checks, %d not claimed" % (len(checks), len(na)))


if __name__ == "__main__":
    main()
