#!/bin/sh
# usage: tools/try_seed.sh <patch.diff> <ID> [<ID>...]   -- applies the patch to /repo, runs the checks, reverts.
P="$1"; shift
cd /repo || exit 2
if ! git diff --quiet; then echo "/repo has local changes; refusing"; exit 2; fi
git apply "$P" || { echo "patch does not apply"; exit 2; }
for id in "$@"; do
  (cd /verif && ./check "$id" --tier ${TIER:-quick} 2>&1 | grep -E "^VIOLATION|rule-instance|KNOWN|CHECK-FAILED|^C[0-9]+:" | head -${LINES_MAX:-12})
done
git checkout -- . 
