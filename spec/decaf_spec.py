"""Reference terms of the decaf377 specification (decode, encode, optimised Elligator 2 map),
written with the same term constructors the engine uses, so that conformance is a comparison of
canonical polynomial forms.  Source: decaf377 specification (protocol.penumbra.zone, sections
"Encoding"/"Decoding"/"Elligator"), and `Decaf_1_1_Point.elligator` of ristretto.sage restated
for the sqrt_ratio_zeta convention.  a = -1, d = 3021."""
from rules.terms import mk, ite
from rules import consts as K


def F(n):
    return mk("felem", "fq", n % K.Q)


def add(a, b): return mk("add", a, b)
def sub(a, b): return mk("sub", a, b)
def mul(a, b): return mk("mul", a, b)
def neg(a): return mk("neg", a)
def sq(a): return mk("mul", a, a)
def sign(a): return mk("sign", a)
def isqrt_sq(n, d): return mk("isqrt_sq", n, d)
def isqrt_v(n, d): return mk("isqrt_v", n, d)
def absv(x): return ite(sign(x), neg(x), x)


A = K.A_COEFF
D = K.D_COEFF


def decode(s):
    """returns dict(x,y,z,t, was_square, s_negative)"""
    ss = sq(s)
    u1 = sub(F(1), ss)
    u2 = sub(sq(u1), mul(F(4 * D), ss))
    den = mul(u2, sq(u1))
    ws, v = isqrt_sq(F(1), den), isqrt_v(F(1), den)
    two_s_u1 = mul(mul(F(2), s), u1)
    v = ite(sign(mul(two_s_u1, v)), neg(v), v)
    x = mul(mul(two_s_u1, sq(v)), u2)
    y = mul(mul(add(F(1), ss), v), u1)
    return dict(x=x, y=y, z=F(1), t=mul(x, y), was_square=ws, s_negative=sign(s))


def encode(X, Y, Z, T):
    amd = F(A - D)
    u1 = mul(add(X, T), sub(X, T))
    v = isqrt_v(F(1), mul(mul(u1, amd), sq(X)))
    u2 = absv(mul(v, u1))
    u3 = sub(mul(u2, Z), T)
    return absv(mul(mul(mul(amd, v), u3), X))


def elligator(r0, zeta):
    """optimised map; returns extended coordinates (X, Y, Z, T)"""
    r = mul(F(zeta), sq(r0))
    den = mul(sub(mul(F(D), r), F(D - A)), sub(mul(F(D - A), r), F(D)))
    num = mul(add(r, F(1)), F(A - 2 * D))
    x = mul(num, den)
    iss, isri = isqrt_sq(F(1), x), isqrt_v(F(1), x)
    sgn = ite(iss, F(1), F(-1))
    twiddle = ite(iss, F(1), r0)
    isri = mul(isri, twiddle)
    s = mul(isri, num)
    t = sub(mul(mul(mul(mul(neg(sgn), isri), s), sub(r, F(1))), sq(F(A - 2 * D))), F(1))
    s = ite(mk("eq", sign(s), iss), neg(s), s)
    E = mul(F(2), s)
    Fv = add(F(1), mul(F(A), sq(s)))
    G = sub(F(1), mul(F(A), sq(s)))
    H = t
    return dict(x=mul(E, H), y=mul(Fv, G), z=mul(Fv, H), t=mul(E, G))
